"""C01 — flow.compile(segment, assets) vs lean/ForML/Model/{Segment,Compile,Symbols,GraphEval}.lean.

Implementation side: random / enumerated DAG segments built with the repo's own graph API
(`flow.Worker`, `.fork()`, `[i].subscribe`, `.train`), compiled by the real `flow.compile` with the
real `asset.State` accessor over a recording fake generation, executed by the harness's own
dependency-ordered memoising interpreter with symbolic actors (provenance terms).

Model side: the real traversal order and the graph as exported from the live node objects are sent to
the Lean driver (`all`): compiled table, interpreter run, direct graph evaluation, DFS order, WF.

Oracle (independent of both compilers): `eval_graph` below — a direct evaluation of the exported graph
written from the property statement.
"""
from __future__ import annotations

import collections
import hashlib
import itertools
import sys

from core import framework as fw
from core import sexp

# --------------------------------------------------------------------------------------------------
# symbolic payloads
# --------------------------------------------------------------------------------------------------


FALSY = 1000  # `falsyBase` of lean/ForML/Model/Symbols.lean


def out_falsy(tag) -> bool:
    """`Actor.falsyOut`: the symbolic actor's `apply` returns a payload that is falsy in Python (yet tells its origin)."""
    return isinstance(tag, int) and tag // FALSY % 2 == 1


def state_falsy(tag) -> bool:
    """`Actor.falsyState`: the symbolic actor's `get_state()` returns a falsy payload."""
    return isinstance(tag, int) and tag // (2 * FALSY) % 2 == 1


def falsy_payload(kind, items) -> bool:
    """`Val.truthy` negated, for the payload kinds that can be falsy (an output, a trained state, a stored state)."""
    if kind == 'apply':
        return out_falsy(items[0])
    if kind == 'state':
        return state_falsy(items[0])
    if kind == 'stored':
        return isinstance(items[0], int) and items[0] >= FALSY
    return False


def truthy_canon(v) -> bool:
    """Truthiness of a canonical value (the oracle's twin of `Val.truthy`)."""
    if v == 'none' or v is None:
        return False
    return not (isinstance(v, list) and v and isinstance(v[0], str) and falsy_payload(v[0], v[1:]))


def as_state(v):
    """`Val.asState`: the state an actor holds after it was offered `v` (forml's state setter skips a falsy value)."""
    return v if truthy_canon(v) else 'none'


class Term:
    """Provenance term; indexable so that a multi-output result can be split by `Getter`. A term of a falsy kind
    (`falsy_payload`) behaves like `b''` / an empty sequence: `bool()` is False, `len()` is 0 - and it still carries
    its whole provenance, so that a flow layer that drops, skips or replaces it is found out."""

    __slots__ = ('kind', 'items', '_canon', 'falsy')

    def __init__(self, kind, *items):
        self.kind = kind
        self.items = items
        self._canon = None
        self.falsy = falsy_payload(kind, items)

    def __len__(self):  # `SetState.set` / `State.dump` log `len(state)`
        return 0 if self.falsy else 1

    def __bool__(self):
        return not self.falsy

    def __iter__(self):
        raise TypeError('term is not iterable')

    def __getitem__(self, index):
        if not isinstance(index, int):
            raise TypeError('term index')
        return Term('proj', index, self)

    def canon(self):
        """Nested lists in the vocabulary of `Val.toSexp`."""
        if self._canon is None:
            self._canon = [self.kind] + [canon(i) for i in self.items]
        return self._canon


def canon(v):
    if v is None:
        return 'none'
    if isinstance(v, Term):
        return v.canon()
    if isinstance(v, bool):
        return 'true' if v else 'false'
    if isinstance(v, int):
        return v
    if isinstance(v, (tuple, list)):
        return [canon(i) for i in v]
    if isinstance(v, (bytes, str)) and not v:
        return 'none'  # an empty state is the falsy state
    return ['opaque', type(v).__name__]


def _quiet_unraisable(unraisable):
    """`Subscription.__del__` raises AttributeError (`{}.discard`) when its node is no longer registered in the
    process-global `_PORTS` (we empty it between cases); CPython prints such errors. Anything else is passed on."""
    if isinstance(unraisable.exc_value, AttributeError) and 'discard' in str(unraisable.exc_value):
        return
    sys.__unraisablehook__(unraisable)


CALLS: list = []  # (tag, 'apply'|'train') — one entry per actor method invocation
EXT = 100  # states of the externally committed generation: ('stored', EXT + position)


def ext_index(base, i):
    """States committed from outside: every other one a falsy state."""
    return base + i + (FALSY if i % 2 else 0)


def wrong_count(npers):
    """Number of states of the commit that must be refused: one too many / one too few, depending on the list."""
    return npers + 1 if npers % 2 == 0 else npers - 1


def _actors():
    from forml import flow

    class Stateless(flow.Actor):
        def __init__(self, tag):
            self._tag = tag
            self._state = None

        def apply(self, *args):
            CALLS.append((self._tag, 'apply'))
            return Term('apply', self._tag, self._state, tuple(args))

        def get_params(self):
            return {}

        def set_params(self, **kwargs):
            pass

    class Stateful(Stateless):
        def train(self, features, labels, /):
            CALLS.append((self._tag, 'train'))
            self._state = Term('state', self._tag, self._state, features, labels)

        def get_state(self):
            return self._state

        def set_state(self, state):
            self._state = state

    return Stateless, Stateful


# --------------------------------------------------------------------------------------------------
# building the real graph from a spec, exporting it back from the live objects
# --------------------------------------------------------------------------------------------------


class Built:
    def __init__(self):
        self.nodes = []
        self.segment = None
        self.error = None
        self.at_segment = False  # the graph was built; `flow.Segment(head, tail)` itself refused it


def build(spec) -> Built:
    """spec = {groups:[{actor,stateful}], nodes:[{group,szin,szout,fork_of}], subs:[...], head, tail}"""
    from forml import flow
    from forml.flow._graph import port as portmod

    portmod.Subscription._PORTS.clear()  # process-global registry, never emptied by forml (see BUILDING.md)
    Stateless, Stateful = _actors()
    out = Built()
    builders = [(Stateful if g['stateful'] else Stateless).builder(tag=g['actor']) for g in spec['groups']]
    first_of_group: dict[int, object] = {}
    try:
        for nd in spec['nodes']:
            gi = nd['group']
            if gi in first_of_group:
                node = first_of_group[gi].fork()
                assert (node.szin, node.szout) == (nd['szin'], nd['szout'])
            else:
                node = flow.Worker(builders[gi], nd['szin'], nd['szout'])
                first_of_group[gi] = node
            out.nodes.append(node)
        wire(out, spec, 0)
        head = out.nodes[spec['head']]
        tail = None if spec.get('tail') is None else out.nodes[spec['tail']]
        out.at_segment = True
        out.segment = flow.Segment(head, tail)
    except Exception as e:  # pylint: disable=broad-except
        out.error = type(e).__name__
    return out


def wire(built: Built, spec, stage):
    """Subscribe what belongs to `stage` (spec['stages'][i] = the round in which subscription i is made; default 0)."""
    stages = spec.get('stages') or [0] * len(spec['subs'])
    for sub, st in zip(spec['subs'], stages):
        if st != stage:
            continue
        if sub[0] == 'a':
            _, s, idx, p, pp = sub
            built.nodes[s][idx].subscribe(built.nodes[p][pp])
        else:
            _, s, px, ppx, py, ppy = sub
            built.nodes[s].train(built.nodes[px][ppx], built.nodes[py][ppy])


def advance(built: Built, spec, stage, rng_bit):
    """The graph between the same head and tail is extended through the graph API; the segment is the same (head, tail)
    pair - alternately the very same `Segment` object and a new, equal one."""
    from forml import flow

    try:
        wire(built, spec, stage)
        if rng_bit:
            built.segment = flow.Segment(built.segment._head, built.segment._tail)  # pylint: disable=protected-access
        return None
    except Exception as e:  # pylint: disable=broad-except
        return type(e).__name__


def export(spec, built: Built):
    """The segment as seen through the public attributes of the live objects + the real visit order."""
    from forml import flow
    from forml.flow._graph import port as portmod

    idx_of = {id(n): i for i, n in enumerate(built.nodes)}
    gid_of = {}
    for i, n in enumerate(built.nodes):
        gid_of.setdefault(n.gid, spec['nodes'][i]['group'])
    order: list[int] = []

    class Rec(flow.Visitor):
        def visit_node(self, node):
            order.append(idx_of[id(node)])

    built.segment.accept(Rec())
    visited = set(order)
    workers, edges, elsewhere = [], [], []
    for i in sorted(visited):
        n = built.nodes[i]
        workers.append([i, gid_of[n.gid], n.builder.kwargs['tag'], bool(n.stateful), n.szin, n.szout])
        for pi, subs in enumerate(n.output):
            for s in subs:
                kind = 't' if isinstance(s.port, portmod.Train) else 'l' if isinstance(s.port, portmod.Label) else 'a'
                edges.append([i, pi, idx_of[id(s.node)], kind, int(s.port)])
        if n.stateful and any(m.trained for m in n.group if id(m) not in idx_of or idx_of[id(m)] not in visited):
            if gid_of[n.gid] not in elsewhere:
                elsewhere.append(gid_of[n.gid])
    head = idx_of[id(built.segment._head)]  # pylint: disable=protected-access
    tail = idx_of[id(built.segment._tail)]  # pylint: disable=protected-access
    # members by definition (independent of Traversal.each): everything downstream of the head; beyond the tail only
    # what is trained on its output
    reach, todo = {head}, [head]
    while todo:
        i = todo.pop()
        for subs in built.nodes[i].output:
            for s in subs:
                j = idx_of.get(id(s.node))
                if j is None or j in reach:
                    continue
                if i == tail and not isinstance(s.port, (portmod.Train, portmod.Label)):
                    continue
                reach.add(j)
                todo.append(j)
    return {'workers': workers, 'edges': edges, 'head': head, 'tail': tail, 'elsewhere': sorted(elsewhere),
            'order': order, 'gids': {v: k for k, v in gid_of.items()}, 'reach': sorted(reach)}


def export_raw(spec, built: Built):
    """All built nodes and their subscriptions with the head and tail of the spec: the argument of `flow.Segment`."""
    from forml.flow._graph import port as portmod

    idx_of = {id(n): i for i, n in enumerate(built.nodes)}
    workers, edges = [], []
    for i, n in enumerate(built.nodes):
        workers.append([i, spec['nodes'][i]['group'], n.builder.kwargs['tag'], bool(n.stateful), n.szin, n.szout])
        for pi, subs in enumerate(n.output):
            for s in subs:
                kind = 't' if isinstance(s.port, portmod.Train) else 'l' if isinstance(s.port, portmod.Label) else 'a'
                edges.append([i, pi, idx_of[id(s.node)], kind, int(s.port)])
    return {'workers': workers, 'edges': edges, 'head': spec['head'], 'tail': spec['tail'], 'elsewhere': []}


# --------------------------------------------------------------------------------------------------
# assets: the real asset.State over a recording fake generation
# --------------------------------------------------------------------------------------------------


class Recorder:
    def __init__(self):
        self.loads, self.dumps, self.commits = [], [], []


# what the accessor may answer instead of a state (`LoadOutcome` of lean/ForML/Model/Faults.lean): only `missing` is the
# documented fallback ("no previous generation" -> no state); every other one must escape from the instruction
FAULTS = ('missing', 'invalid', 'level', 'unexpected', 'crash')
FAULT_MODEL = {'invalid': 'assetRefused', 'level': 'assetRefused', 'unexpected': 'assetRefused', 'crash': 'assetCrashed'}


def fault_exc(kind):
    import forml
    from forml.io import asset

    if kind == 'missing':
        return forml.MissingError('no previous generation')
    if kind == 'invalid':
        return forml.InvalidError('unknown state reference')
    if kind == 'level':
        level = getattr(asset, 'Level', None)
        return getattr(level, 'Invalid', forml.InvalidError)('Invalid level key')
    if kind == 'unexpected':
        return forml.UnexpectedError('unexpected registry answer')
    return RuntimeError('registry unreachable')


class FaultMarker:
    """Entry of the fake generation: loading this position raises."""

    def __init__(self, kind):
        self.kind = kind


class Fault(Exception):
    """Oracle: evaluating the graph needs a state whose load the accessor refuses."""

    def __init__(self, kind):
        super().__init__(kind)
        self.kind = kind


def stored_index(i, b):
    """prev entry: True = a stored state, 'f' = a falsy stored state (e.g. b''), False = nothing at that position."""
    return None if not b else (FALSY + i if b == 'f' else i)


def stored_term(i, b):
    if b in FAULTS:
        return FaultMarker(b)
    k = stored_index(i, b)
    return None if k is None else Term('stored', k)


def make_assets(spec, ex, rec: Recorder):
    """spec['assets'] = None | {'persistent': [group index | 'x<k>' foreign], 'prev': None | [0/1,...]}"""
    import uuid

    import forml
    from forml.io import asset

    a = spec.get('assets')
    if a is None:
        return None
    prev = a.get('prev')

    class Tag:
        def __init__(self, states=()):
            self.states = tuple(states)

        def replace(self, **kw):
            return Tag(kw.get('states', self.states))

    class Release:
        def dump(self, state):
            if a.get('dump_fault'):
                raise fault_exc(a['dump_fault'])
            rec.dumps.append(state)
            return Term('dumped', state)

        def put(self, tag):
            # `State.commit` replaces its generation by what we return: the committed states become the previous ones
            if a.get('commit_fault'):
                raise fault_exc(a['commit_fault'])
            rec.commits.append(tuple(tag.states))
            return Generation([s.items[0] if isinstance(s, Term) and s.kind == 'dumped' else s for s in tag.states])

    release = Release()

    class Generation:
        tag = Tag()

        def __init__(self, states):
            self.states = states  # None = no previous generation
            self.release = release

        def get(self, key):
            rec.loads.append(key)
            if self.states is None or not isinstance(key, int) or key >= len(self.states):
                raise forml.MissingError('no previous generation')
            if isinstance(self.states[key], FaultMarker):
                raise fault_exc(self.states[key].kind)
            return self.states[key]

    gen = Generation(None if prev is None else [stored_term(i, b) for i, b in enumerate(prev)])
    gids = []
    for p in a['persistent']:
        if isinstance(p, int) and p in ex['gids']:
            gids.append(ex['gids'][p])
        else:
            gids.append(uuid.uuid4())  # a group that is not part of this segment
    return asset.State(gen, gids)


# --------------------------------------------------------------------------------------------------
# the harness's own interpreter for compiled tables
# --------------------------------------------------------------------------------------------------


class Cyclic(Exception):
    pass


def action_chain(action):
    """`user.Action` wrapped in `user.Preset`s, outermost first, by class (e.g. ['setstate', 'apply'])."""
    chain = []
    for _ in range(16):
        chain.append(type(action).__name__.lower())
        action = getattr(action, '_action', None)
        if action is None:
            return chain
    return chain + ['...']


def describe(instr, ex_gid_index):
    from forml import flow

    if isinstance(instr, flow.Functor):
        return ['functor', instr.builder.kwargs['tag']] + action_chain(instr.action)
    if isinstance(instr, flow.Getter):
        return ['getter', instr.index]
    if isinstance(instr, flow.Loader):
        return ['loader', ex_gid_index.get(instr._key, 'foreign')]  # pylint: disable=protected-access
    if isinstance(instr, flow.Dumper):
        return ['dumper']
    if isinstance(instr, flow.Committer):
        return ['committer']
    return ['unknown', type(instr).__name__]


def execute(symbols, rec: Recorder):
    """Dependency ordered, memoised. Returns {id(instr): canonical value}, executions per instruction."""
    from forml import flow

    up = {}
    for s in symbols:
        if id(s.instruction) in up:
            raise AssertionError('instruction emitted twice')
        up[id(s.instruction)] = s
    memo: dict = {}
    count: collections.Counter = collections.Counter()
    stack: set = set()

    def ev(instr):
        k = id(instr)
        if k in memo:
            return memo[k]
        if k in stack:
            raise Cyclic()
        stack.add(k)
        sym = up[k]
        args = [ev(a) for a in sym.arguments]
        count[k] += 1
        ncommits = len(rec.commits)
        res = instr(*args)
        if isinstance(instr, flow.Committer):
            res = Term('committed', rec.commits[ncommits]) if len(rec.commits) == ncommits + 1 else Term('nocommit')
        stack.discard(k)
        memo[k] = res
        return res

    for s in symbols:
        ev(s.instruction)
    return {k: canon(v) for k, v in memo.items()}, count


def tree_hashes(table):
    """table: [(key, descriptor, [arg keys])] -> {key: structural hash of the expression rooted there}."""
    by = {k: (d, a) for k, d, a in table}
    memo: dict = {}
    onstack: set = set()

    def h(k):
        if k in memo:
            return memo[k]
        if k not in by:
            return 'unbound'
        if k in onstack:
            raise Cyclic()
        onstack.add(k)
        d, args = by[k]
        memo[k] = hashlib.sha1(repr((d, [h(a) for a in args])).encode()).hexdigest()[:16]
        onstack.discard(k)
        return memo[k]

    for k in by:
        h(k)
    return memo


def rooted(table, hashes):
    """The instruction trees the property talks about: one per task (functor) and the committer's, as a sorted list.
    They hold every instruction that takes part in the dataflow (getters per output port, loaders, dumpers, argument
    positions); symbols nobody refers to (e.g. an un-pruned stub getter) are not part of them."""
    return sorted(hashes[k] for k, d, _ in table if d[0] in ('functor', 'committer'))


def canon_table(table, hashes):
    """Readable canonical form: symbols in the order of their tree hashes, arguments as positions in that order
    (uuids / model keys -> canonical indices)."""
    order = sorted(range(len(table)), key=lambda i: (hashes[table[i][0]], i))
    pos = {table[i][0]: n for n, i in enumerate(order)}
    return [[n, table[i][1], [pos.get(a, '?') for a in table[i][2]]] for n, i in enumerate(order)]


# --------------------------------------------------------------------------------------------------
# the oracle: direct evaluation of the exported graph (independent of flow.compile and of the model)
# --------------------------------------------------------------------------------------------------


def prev_value(i, b):
    """One entry of spec['assets']['prev'] as a canonical stored state: True / 'f' = a (falsy) stored state, False and
    'missing' = no state, another fault kind = ['fault', kind], a canonical value (later rounds) = itself."""
    if isinstance(b, list):
        return b
    if b in FAULTS:
        return 'none' if b == 'missing' else ['fault', b]
    if b == 'none' or not b:
        return 'none'
    return ['stored', stored_index(i, b)]


def prev_values(prev):
    """spec['assets']['prev'] as canonical stored states by list position."""
    return None if prev is None else [prev_value(i, b) for i, b in enumerate(prev)]


def eval_graph(ex, assets_spec, prev_vals='spec'):
    """Direct evaluation; `prev_vals` = the previous generation by list position (default: the one of the spec)."""
    workers = {w[0]: w for w in ex['workers']}
    feed = {}  # (sub, kind, idx) -> (pub, pubport)
    for p, pp, s, kind, idx in ex['edges']:
        feed[(s, kind, idx if kind == 'a' else 0)] = (p, pp)
    trained = {s for (_, _, s, kind, _) in ex['edges'] if kind != 'a'}
    trainer = {}
    for u, w in workers.items():
        if u in trained:
            trainer[w[1]] = u
    pers = None if assets_spec is None else list(assets_spec['persistent'])
    prev = (None if assets_spec is None else prev_values(assets_spec.get('prev'))) if prev_vals == 'spec' else prev_vals

    def stored(gid):
        if pers is None or gid not in pers:
            return 'none'
        i = pers.index(gid)
        v = prev[i] if prev is not None and i < len(prev) else 'none'
        if isinstance(v, list) and v and v[0] == 'fault':
            raise Fault(v[1])  # the accessor refuses this load with something else than MissingError
        return v

    memo: dict = {}
    onstack: set = set()

    def port_value(src):
        p, pp = src
        v = val(p)
        return v if workers[p][5] == 1 else ['proj', pp, v]

    def val(u):
        if u in memo:
            return memo[u]
        if u in onstack:
            raise Cyclic()
        onstack.add(u)
        _, gid, actor, stateful, szin, _ = workers[u]
        if u in trained:
            # a falsy previous state is no state for the actor it is offered to (forml's state setter skips it)
            res = ['state', actor, as_state(stored(gid)) if stateful else 'none', port_value(feed[(u, 't', 0)]),
                   port_value(feed[(u, 'l', 0)])]
        else:
            if not stateful:
                st = 'none'
            elif gid in trainer:
                st = as_state(val(trainer[gid]))
            else:
                st = as_state(stored(gid))
            res = ['apply', actor, st, [port_value(feed[(u, 'a', i)]) for i in range(szin) if (u, 'a', i) in feed]]
        onstack.discard(u)
        memo[u] = res
        return res

    values = {u: val(u) for u in workers}
    commit = None
    if pers is not None and any(g in trainer for g in pers):
        commit = [['dumped', values[trainer[g]]] if g in trainer else None for g in pers]
    calls = collections.Counter((workers[u][2], 'train' if u in trained else 'apply') for u in workers)
    return values, commit, calls


def topo_rank(ex):
    """Topological numbering of data + state edges (trainer -> other members); None if cyclic (D22)."""
    workers = {w[0]: w for w in ex['workers']}
    succ = collections.defaultdict(set)
    indeg = {u: 0 for u in workers}
    trained = {s for (_, _, s, kind, _) in ex['edges'] if kind != 'a'}
    for p, _, s, _, _ in ex['edges']:
        if s in workers and p in workers and s not in succ[p]:
            succ[p].add(s)
            indeg[s] += 1
    for t in trained:
        if t not in workers:
            continue
        for u, w in workers.items():
            if u != t and w[1] == workers[t][1] and u not in succ[t]:
                succ[t].add(u)
                indeg[u] += 1
    ready = sorted(u for u, d in indeg.items() if d == 0)
    rank = {}
    while ready:
        u = ready.pop(0)
        rank[u] = len(rank)
        for v in sorted(succ[u]):
            indeg[v] -= 1
            if indeg[v] == 0:
                ready.append(v)
    return rank if len(rank) == len(workers) else None


def has_error(v) -> bool:
    if isinstance(v, list):
        return (len(v) > 0 and v[0] == 'error') or any(has_error(i) for i in v)
    return False


# --------------------------------------------------------------------------------------------------
# one case through implementation, model and oracle
# --------------------------------------------------------------------------------------------------


def seg_sexp(ex):
    return [[[w[0], w[1], w[2], bool(w[3]), w[4], w[5]] for w in ex['workers']], ex['edges'], ex['head'], ex['tail'],
            ex['elsewhere']]


def assets_sexp(a, ngroups):
    if a is None:
        return None
    pers = [p if isinstance(p, int) else ngroups + 100 + int(p[1:]) for p in a['persistent']]
    prev = a.get('prev')
    def one(i, b):
        v = prev_value(i, b)
        if v == 'none':
            return None
        return ['error', FAULT_MODEL[v[1]]] if v[0] == 'fault' else v

    return [pers, [] if prev is None else [one(i, b) for i, b in enumerate(prev)]]


def run_round(spec, built, ex, assets, rec, reruns):
    """Compile the segment as it is now and execute the table (once, or four times against the evolving store)."""
    from forml import flow

    out = {'stage': 'compile', 'export': ex}
    try:
        symbols = flow.compile(built.segment, assets)
    except Exception as e:  # pylint: disable=broad-except
        out['error'] = type(e).__name__
        return out
    gid_index = {v: k for k, v in ex['gids'].items()}
    ids = {}
    for s in symbols:
        ids.setdefault(id(s.instruction), len(ids))
    table = []
    for s in symbols:
        table.append((ids[id(s.instruction)], describe(s.instruction, gid_index),
                      [ids.setdefault(id(a), len(ids)) for a in s.arguments]))
    out['table'] = table
    out['kinds'] = [d[0] for _, d, _ in table]
    out['stage'] = 'run'
    del CALLS[:], rec.loads[:], rec.dumps[:], rec.commits[:]
    try:
        values, count = execute(symbols, rec)
    except (Cyclic, RecursionError):
        out['error'] = 'Cyclic'
        return out
    except Exception as e:  # pylint: disable=broad-except
        out['error'] = type(e).__name__
        out['commits'] = [canon(c) for c in rec.commits]  # what was committed although the execution failed
        return out
    out['values'] = {ids[k]: v for k, v in values.items()}
    out['once'] = all(c == 1 for c in count.values()) and len(count) == len(symbols)
    out['calls'] = collections.Counter(CALLS)
    out['commits'] = [canon(c) for c in rec.commits]
    out['dumps'] = [canon(d) for d in rec.dumps]
    out['loads'] = list(rec.loads)
    out['stage'] = 'done'
    # the same compiled table executed again: on the store the first execution left, then after an external commit
    # through the same accessor (public `State.commit`) replaced the previous generation
    # …, and a fourth time after a commit from outside with more / fewer states than persistent groups (to be refused)
    out['reruns'] = []
    if assets is not None and reruns:
        npers = len(spec['assets']['persistent'])
        for step in (2, 3, 4):
            r = {}
            if step in (3, 4):
                base, cnt = (EXT, npers) if step == 3 else (2 * EXT, wrong_count(npers))
                r['external'] = {'states': [['stored', ext_index(base, i)] for i in range(cnt)], 'refused': None}
                try:
                    assets.commit(tuple(Term('dumped', Term('stored', ext_index(base, i))) for i in range(cnt)))
                except Exception as e:  # pylint: disable=broad-except
                    r['external']['refused'] = type(e).__name__
            del rec.loads[:], rec.dumps[:], rec.commits[:], CALLS[:]
            try:
                values, count = execute(symbols, rec)
                r['values'] = {ids[k]: v for k, v in values.items()}
                r['calls'] = collections.Counter(CALLS)
                r['commits'] = [canon(c) for c in rec.commits]
                r['dumps'] = [canon(d) for d in rec.dumps]
                r['loads'] = list(rec.loads)
            except (Cyclic, RecursionError):
                r['error'] = 'Cyclic'
            except Exception as e:  # pylint: disable=broad-except
                r['error'] = type(e).__name__
            out['reruns'].append(r)
    return out


def store_view(assets):
    """The previous generation as the accessor holds it right now (canonical values by list position)."""
    states = assets._generation.states  # pylint: disable=protected-access
    if states is None:
        return None
    return [prev_value(i, v.kind) if isinstance(v, FaultMarker) else canon(v) for i, v in enumerate(states)]


def run_impl(spec):
    """One dict per compilation: built?, export, table (canonical), values, calls, commit, error class names. A spec with
    'stages' is compiled once per stage, in one process, with the same head, tail and accessor: compile -> extend the graph
    through the graph API -> compile again; the dicts of the later compilations are under 'rounds'."""
    built = build(spec)
    if built.error:
        return {'stage': 'build', 'error': built.error}
    ex = export(spec, built)
    rec = Recorder()
    assets = make_assets(spec, ex, rec)
    nstages = max(spec.get('stages') or [0])
    a = spec.get('assets') or {}
    out = run_round(spec, built, ex, assets, rec,
                    reruns=nstages == 0 and not (a.get('dump_fault') or a.get('commit_fault')))
    out['rounds'] = []
    for stage in range(1, nstages + 1):
        err = advance(built, spec, stage, stage % 2 == 0)
        if err is not None:
            out['rounds'].append({'stage': 'build', 'error': err})
            break
        ex = export(spec, built)
        view = None if assets is None else dict(spec['assets'], prev=store_view(assets))
        r = run_round(spec, built, ex, assets, rec, reruns=False)
        r['assets_view'] = view
        out['rounds'].append(r)
    return out


def model_table(msyms):
    """Parsed `(symbol*)` of the model -> [(key, descriptor, [arg keys])] in the harness vocabulary."""
    table = []
    for key, instr, args in msyms:
        if isinstance(instr, list) and instr[0] == 'functor':
            d = ['functor', instr[1]] + list(instr[3]) + [instr[2]]
        elif isinstance(instr, list):
            d = list(instr)
        else:
            d = [instr]
        table.append((repr(key), d, [repr(a) for a in args]))
    return table


# --------------------------------------------------------------------------------------------------
# generators
# --------------------------------------------------------------------------------------------------


def gen_spec(rng, size, *, mode=None, want_assets=None, malformed=False):
    """Random segment spec. mode: 'train' (groups may have a trained fork) | 'apply' (no trainer inside)."""
    mode = mode or rng.choice(['train', 'train', 'apply'])
    groups, nodes, subs = [], [], []
    pubs = []  # (node, port) usable as publishers
    members: dict[int, list[int]] = collections.defaultdict(list)  # applied members per group
    trained_groups: set[int] = set()

    def new_group(stateful):
        # actor symbols: mostly unique, sometimes a repeated (equal) builder
        tag = rng.choice([g['actor'] for g in groups]) if groups and rng.random() < 0.12 else len(groups)
        if tag == len(groups) and rng.random() < 0.3:
            # payload kind of the symbolic actor: falsy output and / or (stateful only) falsy trained state
            tag += FALSY * (rng.choice([1, 2, 2, 3]) if stateful else 1)
        same = [g for g in groups if g['actor'] == tag]
        if same:
            stateful = same[0]['stateful']  # an actor class is either stateful or not
        groups.append({'actor': tag, 'stateful': stateful})
        return len(groups) - 1

    def add_node(gi, szin, szout):
        nodes.append({'group': gi, 'szin': szin, 'szout': szout})
        return len(nodes) - 1

    def wire(n):
        for i in range(nodes[n]['szin']):
            p, pp = rng.choice(pubs)
            subs.append(['a', n, i, p, pp])

    def publish(n):
        for o in range(nodes[n]['szout']):
            pubs.append((n, o))

    head = add_node(new_group(rng.random() < 0.25), rng.choice([0, 1, 1]), rng.choice([1, 1, 2, 3]))
    members[nodes[head]['group']].append(head)
    publish(head)
    for _ in range(max(0, size - 2)):
        r = rng.random()
        stateful_groups = [gi for gi, g in enumerate(groups) if g['stateful'] and members[gi]]
        if r < 0.22 and stateful_groups:
            # applied fork of an existing stateful group (same shape)
            gi = rng.choice(stateful_groups)
            proto = nodes[members[gi][0]]
            if proto['szin'] == 0:
                continue
            n = add_node(gi, proto['szin'], proto['szout'])
            members[gi].append(n)
            wire(n)
            publish(n)
        elif r < 0.42 and mode == 'train':
            # trainer: fork of a stateful group without a trained member, or a fresh trained-only group
            cand = [gi for gi in stateful_groups if gi not in trained_groups]
            if cand and rng.random() < 0.75:
                gi = rng.choice(cand)
                proto = nodes[members[gi][0]]
                n = add_node(gi, proto['szin'], proto['szout'])
            else:
                gi = new_group(True)
                if not groups[gi]['stateful']:
                    continue
                n = add_node(gi, rng.choice([1, 2]), rng.choice([1, 2]))
            trained_groups.add(gi)
            (px, ppx), (py, ppy) = rng.choice(pubs), rng.choice(pubs)
            subs.append(['t', n, px, ppx, py, ppy])
        else:
            gi = new_group(rng.random() < 0.45)
            n = add_node(gi, rng.choice([1, 1, 2, 3]), rng.choice([0, 1, 1, 1, 2, 3]) if len(pubs) > 2 else rng.choice([1, 2]))
            members[gi].append(n)
            wire(n)
            publish(n)
    # tail: a final single-output collector (so that the tail has no apply subscribers)
    gi = new_group(rng.random() < 0.3)
    tail = add_node(gi, rng.choice([1, 1, 2, 3]), rng.choice([1, 1, 1, 0]))
    members[gi].append(tail)
    wire(tail)
    # trainers fed by the tail's own output (the traversal follows only *trained* subscribers beyond the tail)
    if mode == 'train' and nodes[tail]['szout'] == 1 and rng.random() < 0.35:
        for _ in range(rng.choice([1, 1, 2])):
            cand = [gi for gi, g in enumerate(groups) if g['stateful'] and members[gi] and gi not in trained_groups
                    and nodes[members[gi][0]]['szin'] > 0]
            if cand and rng.random() < 0.6:
                gi = rng.choice(cand)
                proto = nodes[members[gi][0]]
                n = add_node(gi, proto['szin'], proto['szout'])
            else:
                gi = new_group(True)
                if not groups[gi]['stateful']:
                    continue
                n = add_node(gi, rng.choice([1, 2]), 1)
            trained_groups.add(gi)
            feeds = [(tail, 0), rng.choice(pubs + [(tail, 0)])]
            rng.shuffle(feeds)
            subs.append(['t', n, feeds[0][0], feeds[0][1], feeds[1][0], feeds[1][1]])
    spec = {'groups': groups, 'nodes': nodes, 'subs': subs, 'head': head, 'tail': tail}
    if mode == 'train' and rng.random() < 0.5:
        rng.shuffle(subs)  # subscription order is independent of node creation order
    # persistent list
    stateful = [gi for gi, g in enumerate(groups) if g['stateful'] and (members[gi] or gi in trained_groups)]
    use_assets = want_assets if want_assets is not None else rng.random() < 0.7
    if use_assets:
        if trained_groups:
            pool = sorted(trained_groups)
            if malformed:
                pool = stateful + ['x0']
        else:
            pool = stateful + (['x0', 'x1'] if rng.random() < 0.3 else [])
        k = rng.randint(0, len(pool)) if rng.random() < 0.6 else len(pool)
        pers = rng.sample(pool, k)
        # previous generation: none / one state per group / fewer (missing positions load as "no state") / more (ignored)
        nprev = rng.choice([len(pers), len(pers), len(pers), max(0, len(pers) - 1), max(0, len(pers) - 2), 0, len(pers) + 1,
                            len(pers) + 2])
        prev = None if rng.random() < 0.3 else [rng.choice([True, True, True, 'f', 'f', False]) for _ in range(nprev)]
        spec['assets'] = {'persistent': pers, 'prev': prev}
        r = rng.random()
        if r < 0.12 and prev:
            # the accessor answers one load with something else than a state: MissingError (documented fallback: no
            # state) or a refusal / crash that has to escape
            prev[rng.randrange(len(prev))] = rng.choice(FAULTS)
        elif r < 0.16:
            spec['assets'][rng.choice(['dump_fault', 'commit_fault'])] = rng.choice(FAULTS[1:])
    else:
        spec['assets'] = None
    return spec


def stage_spec(rng, spec, nstages=None):
    """The same segment put together in several rounds (compile -> extend the graph between the same head and tail ->
    compile again): trained forks and dangling branches are attached in a later round. The trainers of persistent groups
    move together (in a training segment the persistent list names trained groups only). None when nothing can move."""
    subs, nodes = spec['subs'], spec['nodes']
    pubs = set()
    for sub in subs:
        pubs |= {sub[3]} if sub[0] == 'a' else {sub[2], sub[4]}
    trained = {sub[1] for sub in subs if sub[0] == 't'}
    pers = set(p for p in spec['assets']['persistent'] if isinstance(p, int)) if spec.get('assets') else set()
    ptrain = [i for i, sub in enumerate(subs) if sub[0] == 't' and nodes[sub[1]]['group'] in pers]
    units = [[i] for i, sub in enumerate(subs) if sub[0] == 't' and i not in ptrain]
    if ptrain:
        units.append(ptrain)
    for n in range(len(nodes)):
        if n in pubs or n in trained or n in (spec['head'], spec['tail']):
            continue
        idxs = [i for i, sub in enumerate(subs) if sub[0] == 'a' and sub[1] == n]
        if idxs:
            units.append(idxs)
    if not units:
        return None
    k = nstages or rng.choice([1, 1, 2])
    stages = [0] * len(subs)
    for unit in rng.sample(units, rng.randint(1, len(units))):
        st = rng.randint(1, k)
        for i in unit:
            stages[i] = st
    used = sorted(set(stages) - {0})
    stages = [0 if st == 0 else used.index(st) + 1 for st in stages]
    return dict(spec, stages=stages)


def spec_weight(spec):
    """Upper bound of the total size of the provenance *trees* of all tasks (terms are DAGs in memory but both sides
    print them as trees): used to keep generated cases printable."""
    nodes, subs = spec['nodes'], spec['subs']
    ins = collections.defaultdict(list)
    trainer = {}
    for sub in subs:
        if sub[0] == 'a':
            ins[sub[1]].append(sub[3])
        else:
            ins[sub[1]] += [sub[2], sub[4]]
            trainer[nodes[sub[1]]['group']] = sub[1]
    memo, stack = {}, set()

    def size(n):
        if n in memo:
            return memo[n]
        if n in stack:
            return 1
        stack.add(n)
        t = trainer.get(nodes[n]['group'])
        r = 2 + sum(size(p) + 1 for p in ins[n]) + (size(t) if t is not None and t != n else 1)
        stack.discard(n)
        memo[n] = r
        return r

    return sum(size(n) for n in range(len(nodes)))


MAX_WEIGHT = 20000


def gen_bounded(rng, size, **kw):
    """`gen_spec` with the printed size of the result terms bounded (deep fan-in DAGs explode as trees)."""
    while True:
        spec = gen_spec(rng, size, **kw)
        if spec_weight(spec) <= MAX_WEIGHT:
            return spec
        size = max(3, size - 2)


CORPUS = [
    # chain of three (the only shape compiled by tests/flow/_code/test_compiler.py)
    {'groups': [{'actor': 0, 'stateful': False}, {'actor': 1, 'stateful': False}, {'actor': 2, 'stateful': False}],
     'nodes': [{'group': 0, 'szin': 0, 'szout': 1}, {'group': 1, 'szin': 1, 'szout': 1}, {'group': 2, 'szin': 1, 'szout': 1}],
     'subs': [['a', 1, 0, 0, 0], ['a', 2, 0, 1, 0]], 'head': 0, 'tail': None, 'assets': None},
    # 2-output head, crossed wiring, one port used twice
    {'groups': [{'actor': 0, 'stateful': False}, {'actor': 1, 'stateful': False}],
     'nodes': [{'group': 0, 'szin': 1, 'szout': 2}, {'group': 1, 'szin': 3, 'szout': 1}],
     'subs': [['a', 1, 2, 0, 0], ['a', 1, 0, 0, 1], ['a', 1, 1, 0, 1]], 'head': 0, 'tail': 1, 'assets': None},
    # the DESIGN non-vacuity shape: 2-output worker with an unused port, a group with a trainer and two applied
    # forks, train/label from different upstream ports, partial persistence (group 2 persistent, group 3 not)
    {'groups': [{'actor': 0, 'stateful': False}, {'actor': 1, 'stateful': False}, {'actor': 2, 'stateful': True},
                {'actor': 3, 'stateful': True}, {'actor': 4, 'stateful': False}],
     'nodes': [{'group': 0, 'szin': 0, 'szout': 1}, {'group': 1, 'szin': 1, 'szout': 3}, {'group': 2, 'szin': 1, 'szout': 1},
               {'group': 2, 'szin': 1, 'szout': 1}, {'group': 2, 'szin': 1, 'szout': 1}, {'group': 3, 'szin': 1, 'szout': 1},
               {'group': 3, 'szin': 1, 'szout': 1}, {'group': 4, 'szin': 3, 'szout': 1}],
     'subs': [['a', 1, 0, 0, 0], ['a', 2, 0, 1, 0], ['a', 3, 0, 1, 1], ['t', 4, 1, 0, 1, 1], ['a', 5, 0, 2, 0],
              ['t', 6, 3, 0, 0, 0], ['a', 7, 0, 2, 0], ['a', 7, 1, 3, 0], ['a', 7, 2, 5, 0]],
     'head': 0, 'tail': 7, 'assets': {'persistent': [2], 'prev': [True]}},
    # same, both persistent in reverse order, first generation (nothing stored)
    {'groups': [{'actor': 0, 'stateful': False}, {'actor': 1, 'stateful': False}, {'actor': 2, 'stateful': True},
                {'actor': 3, 'stateful': True}, {'actor': 4, 'stateful': False}],
     'nodes': [{'group': 0, 'szin': 0, 'szout': 1}, {'group': 1, 'szin': 1, 'szout': 3}, {'group': 2, 'szin': 1, 'szout': 1},
               {'group': 2, 'szin': 1, 'szout': 1}, {'group': 2, 'szin': 1, 'szout': 1}, {'group': 3, 'szin': 1, 'szout': 1},
               {'group': 3, 'szin': 1, 'szout': 1}, {'group': 4, 'szin': 3, 'szout': 1}],
     'subs': [['a', 1, 0, 0, 0], ['a', 2, 0, 1, 0], ['a', 3, 0, 1, 1], ['t', 4, 1, 0, 1, 1], ['a', 5, 0, 2, 0],
              ['t', 6, 3, 0, 0, 0], ['a', 7, 0, 2, 0], ['a', 7, 1, 3, 0], ['a', 7, 2, 5, 0]],
     'head': 0, 'tail': 7, 'assets': {'persistent': [3, 2], 'prev': None}},
    # apply mode: stateful forks loading stored states, one foreign persistent group
    {'groups': [{'actor': 0, 'stateful': True}, {'actor': 1, 'stateful': True}],
     'nodes': [{'group': 0, 'szin': 1, 'szout': 2}, {'group': 1, 'szin': 2, 'szout': 1}, {'group': 1, 'szin': 2, 'szout': 1}],
     'subs': [['a', 1, 0, 0, 1], ['a', 1, 1, 0, 0], ['a', 2, 0, 1, 0], ['a', 2, 1, 0, 0]],
     'head': 0, 'tail': 2, 'assets': {'persistent': ['x0', 1, 0], 'prev': [True, True, False]}},
]

# C01-F1 (fixed, fixes/C01-leaves-empty-linkage.diff): a segment of one stateless worker without any subscription
# (valid: acyclic, trivially connected) — the unrepaired `Linkage.leaves` asserted a non-empty leaf set ('Not acyclic')
LONE = [
    {'groups': [{'actor': 0, 'stateful': False}], 'nodes': [{'group': 0, 'szin': 1, 'szout': 1}], 'subs': [],
     'head': 0, 'tail': None, 'assets': None},
    {'groups': [{'actor': 0, 'stateful': False}], 'nodes': [{'group': 0, 'szin': 0, 'szout': 1}], 'subs': [],
     'head': 0, 'tail': 0, 'assets': {'persistent': [], 'prev': None}},
    {'groups': [{'actor': 0, 'stateful': True}], 'nodes': [{'group': 0, 'szin': 1, 'szout': 1}], 'subs': [],
     'head': 0, 'tail': None, 'assets': {'persistent': [0], 'prev': [True]}},
]

MALFORMED = [
    # sub-segment whose tail has an apply subscriber outside: raw KeyError from `__iter__`
    {'groups': [{'actor': 0, 'stateful': False}, {'actor': 1, 'stateful': False}, {'actor': 2, 'stateful': False}],
     'nodes': [{'group': 0, 'szin': 0, 'szout': 1}, {'group': 1, 'szin': 1, 'szout': 1}, {'group': 2, 'szin': 1, 'szout': 1}],
     'subs': [['a', 1, 0, 0, 0], ['a', 2, 0, 1, 0]], 'head': 0, 'tail': 1, 'assets': None},
    # a worker with an unconnected middle port: AssemblyError
    {'groups': [{'actor': 0, 'stateful': False}, {'actor': 1, 'stateful': False}],
     'nodes': [{'group': 0, 'szin': 0, 'szout': 1}, {'group': 1, 'szin': 3, 'szout': 1}],
     'subs': [['a', 1, 0, 0, 0], ['a', 1, 2, 0, 0]], 'head': 0, 'tail': 1, 'assets': None},
    # trailing unconnected port: compiles, shorter argument list
    {'groups': [{'actor': 0, 'stateful': False}, {'actor': 1, 'stateful': False}],
     'nodes': [{'group': 0, 'szin': 0, 'szout': 1}, {'group': 1, 'szin': 3, 'szout': 1}],
     'subs': [['a', 1, 0, 0, 0], ['a', 1, 1, 0, 0]], 'head': 0, 'tail': 1, 'assets': None},
    # persistent list naming an untrained group first while another is trained: gap in the committer arguments
    {'groups': [{'actor': 0, 'stateful': False}, {'actor': 1, 'stateful': True}, {'actor': 2, 'stateful': True}],
     'nodes': [{'group': 0, 'szin': 0, 'szout': 1}, {'group': 1, 'szin': 1, 'szout': 1}, {'group': 2, 'szin': 1, 'szout': 1},
               {'group': 2, 'szin': 1, 'szout': 1}],
     'subs': [['a', 1, 0, 0, 0], ['a', 2, 0, 1, 0], ['t', 3, 0, 0, 1, 0]], 'head': 0, 'tail': 2,
     'assets': {'persistent': [1, 2], 'prev': None}},
    # ... and last: short commit
    {'groups': [{'actor': 0, 'stateful': False}, {'actor': 1, 'stateful': True}, {'actor': 2, 'stateful': True}],
     'nodes': [{'group': 0, 'szin': 0, 'szout': 1}, {'group': 1, 'szin': 1, 'szout': 1}, {'group': 2, 'szin': 1, 'szout': 1},
               {'group': 2, 'szin': 1, 'szout': 1}],
     'subs': [['a', 1, 0, 0, 0], ['a', 2, 0, 1, 0], ['t', 3, 0, 0, 1, 0]], 'head': 0, 'tail': 2,
     'assets': {'persistent': [2, 1], 'prev': None}},
]


def enum_small(max_nodes):
    """All segments over a small shape alphabet with up to `max_nodes` workers (head + chain of choices).

    Every further node is one of: stateless 1:1 / 2:1 / 1:2, new stateful 1:1, applied fork of stateful group 0,
    trainer of stateful group 0; inputs range over all earlier publisher ports (head has szout 2).
    """
    def rec(nodes, groups, subs, pubs, sgroup, strained, depth):
        if depth == 0:
            yield nodes, groups, subs, pubs, sgroup, strained
            return
        yield nodes, groups, subs, pubs, sgroup, strained
        options = [('sl', 1, 1), ('sl', 2, 1), ('sl', 1, 2), ('sf', 1, 1)]
        if sgroup is not None:
            options.append(('fork', 1, 1))
            if not strained:
                options.append(('train', 1, 1))
        for kind, szin, szout in options:
            n = len(nodes)
            if kind in ('sl', 'sf'):
                gi = len(groups)
                g2 = groups + [{'actor': gi, 'stateful': kind == 'sf'}]
            else:
                gi, g2 = sgroup, groups
            n2 = nodes + [{'group': gi, 'szin': szin, 'szout': szout}]
            if kind == 'train':
                for (a, b) in itertools.product(pubs, repeat=2):
                    yield from rec(n2, g2, subs + [['t', n, a[0], a[1], b[0], b[1]]], pubs, sgroup, True, depth - 1)
            else:
                for choice in itertools.product(pubs, repeat=szin):
                    s2 = subs + [['a', n, i, p, pp] for i, (p, pp) in enumerate(choice)]
                    p2 = pubs + [(n, o) for o in range(szout)]
                    yield from rec(n2, g2, s2, p2, gi if kind == 'sf' and sgroup is None else sgroup, strained, depth - 1)

    seen = 0
    for nodes, groups, subs, pubs, sgroup, strained in rec(
            [{'group': 0, 'szin': 0, 'szout': 2}], [{'actor': 0, 'stateful': False}], [], [(0, 0), (0, 1)], None, False,
            max_nodes - 1):
        if len(nodes) < 2:
            continue
        # tail: the last applied node with a single output and no subscriber
        used = {(s[3], s[4]) for s in subs if s[0] == 'a'} | {(s[2], s[3]) for s in subs if s[0] == 't'} | {(s[4], s[5]) for s in subs if s[0] == 't'}
        trained = {s[1] for s in subs if s[0] == 't'}
        tails = [i for i, nd in enumerate(nodes) if nd['szout'] == 1 and (i, 0) not in used and i not in trained]
        if not tails:
            continue
        spec = {'groups': groups, 'nodes': nodes, 'subs': subs, 'head': 0, 'tail': tails[-1]}
        variants = [None]
        if sgroup is not None:
            variants += [{'persistent': [sgroup], 'prev': None}, {'persistent': [sgroup], 'prev': [True]}]
        for a in variants:
            seen += 1
            yield dict(spec, assets=a)


def enum_trainer_ports(full):
    """Multi-output stateful groups with one applied and one trained fork: the trainer's feature and label ports fed
    from every ordered pair of upstream output ports (head with 2..3 outputs, a 1:2 splitter behind it), the applied
    fork from either end, the tail collecting the group's output ports in every order; previous generation absent /
    matching / shorter / longer than the persistent list."""
    for hout in (2, 3):
        for gout in (1, 2):
            groups = [{'actor': 0, 'stateful': False}, {'actor': 1, 'stateful': False}, {'actor': 2, 'stateful': True},
                      {'actor': 3, 'stateful': False}]
            nodes = [{'group': 0, 'szin': 0, 'szout': hout}, {'group': 1, 'szin': 1, 'szout': 2},
                     {'group': 2, 'szin': 1, 'szout': gout}, {'group': 2, 'szin': 1, 'szout': gout},
                     {'group': 3, 'szin': gout, 'szout': 1}]
            pubs = [(0, i) for i in range(hout)] + [(1, 0), (1, 1)]
            for x in ((pubs[0], pubs[-1]) if not full else pubs):
                for (fa, fb) in itertools.product(pubs, repeat=2):
                    for perm in itertools.permutations(range(gout)):
                        subs = [['a', 1, 0, 0, hout - 1], ['a', 2, 0, x[0], x[1]], ['t', 3, fa[0], fa[1], fb[0], fb[1]]]
                        subs += [['a', 4, i, 2, o] for i, o in enumerate(perm)]
                        variants = [None, {'persistent': [2], 'prev': [True]}, {'persistent': [2], 'prev': []},
                                    {'persistent': [2], 'prev': ['f', True]}]
                        if full:
                            # (no foreign gid here: in a training segment the persistent list names trained groups only)
                            variants += [{'persistent': [2], 'prev': None}, {'persistent': [2], 'prev': [False]}]
                        for a in variants:
                            yield {'groups': groups, 'nodes': nodes, 'subs': subs, 'head': 0, 'tail': 4, 'assets': a}


def enum_falsy():
    """The corpus shapes (DESIGN's train shape with partial / full persistence, the apply-mode shape) with every
    assignment of payload kinds to their groups - falsy output, falsy trained state, both - and with truthy / falsy
    stored states: a falsy payload in every role (data on a port, through a getter, trained state dumped and committed,
    trained state preset into the applied forks, previous state loaded into trainer and appliers)."""
    for base in (CORPUS[2], CORPUS[3], CORPUS[4]):
        gs = base['groups']
        a = base['assets']
        prevs = [a['prev'], ['f'] * len(a['persistent'])]
        if a['prev'] is not None:
            prevs.append(['f' if (x and i % 2 == 0) else x for i, x in enumerate(a['prev'])])
        prevs = [p for i, p in enumerate(prevs) if p not in prevs[:i]]
        for bits in itertools.product(*[([0, 1, 2, 3] if g['stateful'] else [0, 1]) for g in gs]):
            if not any(bits):
                continue
            groups = [dict(g, actor=g['actor'] + FALSY * b) for g, b in zip(gs, bits)]
            for prev in prevs:
                yield dict(base, groups=groups, assets=dict(a, prev=prev))


CYCLIC = [
    # head -> tail (subscribed first), head -> X, X <-> Y: `Segment(head, tail)` finds the tail before the cycle
    {'groups': [{'actor': i, 'stateful': False} for i in range(4)],
     'nodes': [{'group': 0, 'szin': 0, 'szout': 1}, {'group': 1, 'szin': 1, 'szout': 1}, {'group': 2, 'szin': 2, 'szout': 1},
               {'group': 3, 'szin': 1, 'szout': 1}],
     'subs': [['a', 1, 0, 0, 0], ['a', 2, 0, 0, 0], ['a', 3, 0, 2, 0], ['a', 2, 1, 3, 0]], 'head': 0, 'tail': 1, 'assets': None},
    # the tail publishes back to the head: at the tail only trained subscribers are followed
    {'groups': [{'actor': i, 'stateful': False} for i in range(2)],
     'nodes': [{'group': 0, 'szin': 1, 'szout': 1}, {'group': 1, 'szin': 1, 'szout': 1}],
     'subs': [['a', 1, 0, 0, 0], ['a', 0, 0, 1, 0]], 'head': 0, 'tail': 1, 'assets': None},
    # a cycle before the tail, reached after it in subscription order; a trainer hanging off the cycle
    {'groups': [{'actor': 0, 'stateful': False}, {'actor': 1, 'stateful': False}, {'actor': 2, 'stateful': False},
                {'actor': 3, 'stateful': False}, {'actor': 4, 'stateful': True}],
     'nodes': [{'group': 0, 'szin': 0, 'szout': 2}, {'group': 1, 'szin': 1, 'szout': 1}, {'group': 2, 'szin': 2, 'szout': 2},
               {'group': 3, 'szin': 1, 'szout': 1}, {'group': 4, 'szin': 1, 'szout': 1}],
     'subs': [['a', 1, 0, 0, 0], ['a', 2, 0, 0, 1], ['a', 3, 0, 2, 0], ['a', 2, 1, 3, 0], ['t', 4, 2, 1, 3, 0]],
     'head': 0, 'tail': 1, 'assets': None},
]


def gen_cyclic(rng, size):
    """A generated segment with one subscription added that closes a cycle: a further input port of a worker that is
    alone in its group, fed by a node downstream of it. Whether `flow.Segment` accepts it depends on the order in which
    its tail search meets the tail and the cycle."""
    for _ in range(50):
        spec = gen_spec(rng, size, want_assets=False)
        nodes, subs = spec['nodes'], spec['subs']
        down = collections.defaultdict(set)
        for sub in subs:
            if sub[0] == 'a':
                down[sub[3]].add(sub[1])
        trained = {sub[1] for sub in subs if sub[0] == 't'}
        alone = [i for i, nd in enumerate(nodes) if sum(1 for m in nodes if m['group'] == nd['group']) == 1
                 and i not in trained and i != spec['head']]
        rng.shuffle(alone)
        for x in alone:
            reach, todo = set(), [x]
            while todo:
                for j in down[todo.pop()]:
                    if j not in reach:
                        reach.add(j)
                        todo.append(j)
            ys = sorted(j for j in reach if nodes[j]['szout'] > 0 and j not in trained and j != x)
            if not ys:
                continue
            y = rng.choice(ys)
            nodes = [dict(nd) for nd in nodes]
            nodes[x]['szin'] += 1
            return dict(spec, nodes=nodes, subs=subs + [['a', x, nodes[x]['szin'] - 1, y, rng.randrange(nodes[y]['szout'])]])
    return None


# --------------------------------------------------------------------------------------------------
# the check
# --------------------------------------------------------------------------------------------------

ERRMAP = {'AssemblyError': 'assembly', 'KeyError': 'keyError', 'AssertionError': 'assertion', 'UnexpectedError': 'unexpected'}


class C01(fw.Check):
    ID = 'C01'
    LEAN_MODULES = ['ForML.Props.C01']
    DRIVER = 'drv_c01'
    RULE = ('segments built with flow.Worker/fork/subscribe/train: random DAGs of 2..25 workers (chains, fan-out/fan-in, '
            'M:N workers with szin 0..3 / szout 0..3, unused ports and dangling branches, stateless/stateful mix, repeated '
            'equal builders, groups with 0/1 trained and 0..n applied forks, train/label from arbitrary upstream ports, '
            'shuffled subscription order), assets absent / any subset and order of the eligible groups (+ foreign gids) '
            'with no / partial / full previous generation, trainers fed by the tail; plus every segment over a 6-letter shape '
            'alphabet with up to 3 (quick) / 4 (thorough) workers x 3 asset variants and a stride sample of the next size. A case is distinct by (exported graph, assets) and non-trivial when '
            'it has >= 3 workers and compiles. Compared: structural (order-insensitive) symbol tables, values of all '
            'symbols, execution counts, visit order, commit/dump/load records; oracle = direct graph evaluation. Round 4: '
            'previous generations shorter / longer than the persistent list; a family of multi-output stateful groups whose '
            'trainer takes features and labels from every ordered pair of upstream ports; every compiled table executed four '
            'times (own commit, external commit, refused external commit of a wrong size); the compiled table itself compared '
            'as canonical instruction trees of all tasks and the committer; a stream of cyclic flows on which '
            'flow.Segment acceptance and the traversal alone are compared (mechanism-level data). Round 5: payloads of both '
            'kinds - 30% of the groups have actors whose output and / or trained state is falsy in Python (bool False, len 0) '
            'yet carries its provenance, stored and externally committed states are truthy / falsy / absent; the corpus '
            'shapes with every assignment of payload kinds to their groups (histogram key falsy=y). Round 6: the accessor '
            'double answers a load with a state / MissingError / InvalidError / Level.Invalid / UnexpectedError / an arbitrary '
            'exception at any position, and may fail the dump or the commit (12% + 4% of the cases with assets, plus a family); '
            '25% of the random segments and a quarter of the trainer family are put together in 2..3 rounds in one process with '
            'the same head, tail and accessor: compile + run, attach trained forks / dangling branches through the graph API, '
            'compile + run again (every compilation is compared with the model and judged on the graph as it is then).')
    TRUSTED = [
        'symbolic actors/payloads (provenance terms): the flow layer is assumed payload-agnostic (parametricity, DESIGN 3) '
        'apart from truthiness, which is exercised: payloads are generated truthy and falsy-but-informative in every role',
        'harness interpreter for compiled tables (memoised, dependency ordered) and the fake generation behind the real '
        'asset.State (load by position, dump ids, commit list)',
        'Instruction.__call__ logging wrapper, Builder.__call__, cloudpickle state bytes: replaced by symbols',
    ]
    ASSUMPTIONS = [
        'valid segment = acyclic including state edges trainer -> applied forks of its group (D22 shapes are excluded), '
        'every apply port of every non-head member connected, tail without apply subscribers',
        'persistent list: duplicate free, in a training segment a subset of the groups trained in it',
        'a state that is falsy in Python is no state for the actor it is offered to (Preset.reduce skips it: model, '
        'specification and oracle say the same), and a state like any other for the dumper and the committer',
        'the member list of a segment is data of the model; that it is the set reachable from the head (decidable '
        '`connected`, proved equivalent to reachability and to visitOrder.Perm uids) is evaluated on every exported case; '
        'the real visit list is compared with the model and judged by a reachability oracle',
        'Future nodes and Traversal.tail() without an expected tail are not modelled (segments of Workers, explicit or '
        'resolved tail)',
        'model and theorems are those of the code with fix C01-F1 (Linkage.leaves accepts an empty linkage)',
        'uuid4 keys never collide',
        'accessor failures: only MissingError on a load is a documented fallback (no state); any other exception raised by '
        'load / dump / commit has to escape from executing the table and nothing may be committed; dump and commit failures '
        'are judged by the oracle only (the Lean store models load outcomes)',
    ]

    # ---- one batch ---------------------------------------------------------------------------
    @staticmethod
    def _line(ex, a, ngroups, rank):
        return sexp.dumps(['all', seg_sexp(ex), assets_sexp(a, ngroups), ex['order'],
                           [[u, r] for u, r in sorted((rank or {}).items())],
                           [] if a is None else [['stored', ext_index(EXT, i)] for i in range(len(a['persistent']))],
                           [] if a is None else [['stored', ext_index(2 * EXT, i)]
                                                 for i in range(wrong_count(len(a['persistent'])))]])

    @staticmethod
    def _rounds(spec, impl):
        """(round number, that round's view of the spec, its impl dict) for every compilation that got as far as export."""
        out = [(0, spec, impl)]
        for n, r in enumerate(impl.get('rounds', []), 1):
            if 'export' in r:
                out.append((n, dict(spec, assets=r['assets_view']), r))
        return out

    def _batch(self, specs, stream):
        """Run specs through implementation + oracle, then the model in one driver call, and compare."""
        todo, lines = [], []
        for spec in specs:
            impl = run_impl(spec)
            if impl['stage'] == 'build':
                self.case(('build', repr(spec)), f'{stream}: graph API refused ({impl["error"]})', nontrivial=False)
                continue
            for rnd, view, r in self._rounds(spec, impl):
                r['rank'] = topo_rank(r['export'])
                lines.append(self._line(r['export'], view.get('assets'), len(spec['groups']), r['rank']))
                todo.append((spec, rnd, view, r))
            if any(r.get('stage') == 'build' for r in impl.get('rounds', [])):
                self.case(('build-later', repr(spec)), f'{stream}: graph API refused a later stage', nontrivial=False)
        answers = self.model(lines)
        for (spec, rnd, view, r), ans in zip(todo, answers):
            self._compare(view, r, sexp.num(sexp.loads(ans)), stream, rnd, spec)

    def _cyclic_batch(self, specs):
        """Cyclic flows are no valid segments (outside the property); what is compared is the traversal alone: the
        model says `Traversal.each` never raises `Cyclic` and visits what is reachable, once (C01_traversal_never_cyclic,
        C01_traversal_enumerates). Differences are recorded as mechanism level data and raise no alarm."""
        lines, kept = [], []
        raws, rawlines = [], []
        for spec in specs:
            built = build(spec)
            if (built.error is None or built.at_segment) and spec.get('tail') is not None:
                raws.append(built.error)
                rawlines.append(sexp.dumps(['construct', seg_sexp(export_raw(spec, built))]))
            if built.error:
                self.case(('cyclic-build', repr(spec)), f'cyclic: flow.Segment refused ({built.error})', nontrivial=False)
                continue
            try:
                ex = export(spec, built)
            except Exception as e:  # pylint: disable=broad-except
                self.case(('cyclic-each', repr(spec)), f'cyclic: Traversal.each raises {type(e).__name__}', nontrivial=False)
                self._mech(f'Traversal.each raises {type(e).__name__} on a cyclic flow (model: never)')
                continue
            kept.append(ex)
            lines.append(sexp.dumps(['dfs', seg_sexp(ex)]))
        # flow.Segment(head, tail): accepted / Cyclic / another TopologyError, as the model of Traversal.tail(expected) says
        want = {'ok': None, 'cyclic': 'Cyclic', 'simpleHead': 'TopologyError', 'simpleTail': 'TopologyError',
                'disconnected': 'TopologyError'}
        done = self.extra.setdefault('segment_constructor_compared', {})
        for err, ans in zip(raws, self.model(rawlines) if rawlines else []):
            m = sexp.loads(ans)
            if m not in want:
                raise fw.MachineryError(f'model driver rejected a constructor case: {m!r}')
            done[str(m)] = done.get(str(m), 0) + 1
            if want[m] != err:
                self._mech(f'flow.Segment(head, tail): {err or "accepted"} where the model says {m}')
        for ex, ans in zip(kept, self.model(lines) if lines else []):
            m = sexp.num(sexp.loads(ans))
            if not (isinstance(m, list) and len(m) >= 5 and m[0] == 'ok'):
                raise fw.MachineryError(f'model driver rejected a traversal case: {m!r}')
            cyc = topo_rank(ex) is None
            self.case(('cyclic', repr(seg_sexp(ex))), f'cyclic: traversal of a {"cyclic" if cyc else "acyclic"} flow',
                      nontrivial=cyc and len(ex['workers']) >= 3)
            if m[2] != ['ok', m[1]]:
                self.diverge('model: Traversal.each with the Cyclic test differs from the plain search', {'export': ex}, None, m[2])
            if m[1] != ex['order']:
                self._mech('cyclic flow: visit ' + ('order' if sorted(m[1]) == sorted(ex['order']) else 'set') + ' differs')
            if sorted(ex['order']) != ex['reach']:
                self._mech('cyclic flow: Traversal.each does not visit the reachable set once')

    def _mech(self, what):
        """A mechanism-level difference between model and implementation that the property does not talk about."""
        c = self.extra.setdefault('mechanism_level_differences', {})
        c[what] = c.get(what, 0) + 1

    def _expected_failure(self, ex, a):
        """(what, kind) when the accessor is set up to fail an operation this segment performs, else None."""
        if a is None:
            return None
        try:
            _, ocommit, _ = eval_graph(ex, a)
        except Fault as f:
            return ('load', f.kind)
        except Cyclic:
            return None
        if ocommit is not None:
            for what in ('dump', 'commit'):
                if a.get(what + '_fault'):
                    return (what, a[what + '_fault'])
        return None

    def _compare(self, spec, impl, m, stream, rnd=0, witness_spec=None):
        ex = impl['export']
        a = spec.get('assets')
        key = (repr(seg_sexp(ex)), repr(a), rnd)
        # a later compilation of the same (head, tail) after the graph was extended: same demands, own signatures
        pre = '' if rnd == 0 else f'compile #{rnd + 1} (after the graph between the same head and tail was extended): '
        suf = '' if rnd == 0 else '-recompiled'
        if not (isinstance(m, list) and m and m[0] == 'all'):
            raise fw.MachineryError(f'model driver rejected a case: {m!r}')
        _, mcomp, mrun, meval, mdfs, mwf, mspec, mrerun = m
        nw = len(ex['workers'])
        witness = {'spec': witness_spec or spec}
        # members of the segment = what Traversal.each visits; the order itself is incidental (the theorems hold for
        # every visit order), so only the visited *set* is compared with the model's traversal
        if sorted(mdfs[1]) != sorted(ex['order']):
            self.diverge('Traversal.each visited set', witness, sorted(ex['order']), sorted(mdfs[1]))
        elif mdfs[1] != ex['order']:
            self._mech('visit order differs (same set)')
        if len(mdfs) >= 5:
            if mdfs[2] != ['ok', mdfs[1]]:
                # theorem C01_traversal_never_cyclic: the traversal with the Cyclic test is the plain search
                self.diverge('model: Traversal.each with the Cyclic test differs from the plain search', witness, None, mdfs[2])
            if stream == 'valid' and impl.get('rank') is not None and mdfs[3:6] != ['true', 'true', 'ok']:
                self.diverge('exported members are not the reachable set by the Lean predicates (connected closed), or the '
                             'model of flow.Segment(head, tail) refuses what the real constructor accepted', witness,
                             ex['reach'], mdfs[3:6])
        elif stream == 'valid':
            raise fw.MachineryError('model driver does not report the traversal flags')
        if stream == 'valid' and sorted(ex['order']) != ex['reach']:
            self.violate(f'{pre}segment traversal visits {sorted(ex["order"])} but the members reachable from the head are '
                         f'{ex["reach"]}', witness, 'segment-members' + suf)
        # ---- compile --------------------------------------------------------------------------
        if impl['stage'] == 'compile':
            cls = impl['error']
            shape = f'{stream}: compile raises {cls}'
            self.case(key, shape, nontrivial=False)
            if mcomp[0] != 'error':
                self.diverge('compile outcome', witness, cls, 'ok')
            elif mcomp[1] != ERRMAP.get(cls, cls):
                self._mech(f'exception class {cls} vs model {mcomp[1]}')
            if stream == 'valid' and impl['rank'] is not None:
                sig = f'compile-raises-{cls}' + suf
                self.violate(f'{pre}flow.compile raises {cls} on a valid segment ({len(ex["workers"])} workers, '
                             f'{len(ex["edges"])} subscriptions)', witness, sig)
            return
        if mcomp[0] != 'ok':
            self.case(key, f'{stream}: model error', nontrivial=False)
            self.diverge('compile outcome', witness, 'ok', mcomp)
            return
        itab = [(k, d, args) for k, d, args in impl['table']]
        mtab = model_table(mcomp[1])
        def hashes(tab):
            try:
                return tree_hashes(tab)
            except Cyclic:
                return None

        ih, mh = hashes(itab), hashes(mtab)
        if ih is None or mh is None:
            # D22: a trainer fed by an applied fork of its own group - the table is cyclic through the state argument
            self.case(key, f'{stream}: cyclic table', nontrivial=False)
            if (ih is None) != (mh is None):
                self.diverge('cyclic compiled table', witness, 'cyclic' if ih is None else 'acyclic',
                             'cyclic' if mh is None else 'acyclic')
            if ih is None and stream == 'valid' and impl['rank'] is not None:
                self.violate(pre + 'the compiled table of an acyclic segment is cyclic (executing it never terminates)',
                             witness, 'run-raises-Cyclic' + suf)
            return
        isyms = sorted(ih[k] for k, _, _ in itab)
        msyms = sorted(mh[k] for k, _, _ in mtab)
        if rooted(itab, ih) != rooted(mtab, mh):
            # the compiled table itself, where the property talks about it: kind/actor/action+preset chain of every
            # task, its arguments by position (state first, then one per input port: the publisher's functor or the
            # getter of the subscribed output port), loader keys, dumper -> committer positions
            ci, cm = canon_table(itab, ih), canon_table(mtab, mh)
            only_i = [x for x in ci if x[1:] not in [y[1:] for y in cm]][:3]
            only_m = [x for x in cm if x[1:] not in [y[1:] for y in ci]][:3]
            if stream == 'valid' and impl['rank'] is not None:
                self.diverge('compiled symbol table: instruction trees of the tasks / the committer', witness,
                             only_i or ci[:6], only_m or cm[:6])
            else:
                self._mech('symbol table differs on a malformed segment')
        elif isyms != msyms:
            # symbols nobody refers to (e.g. an un-pruned stub getter): not what the property talks about
            self._mech('symbol table differs in unreferenced symbols only')
        # ---- run ------------------------------------------------------------------------------
        mvals = {repr(k): v for k, v in mrun[1]} if mrun not in ('skip', 'cyclic') else {}
        model_raised = mrun == 'cyclic' or any(has_error(v) for v in mvals.values())
        if mrun not in ('skip', 'cyclic') and mrun[4] != 'true':
            self.diverge('model: memoising run disagrees with Table.value / not once', witness, None, mrun[4])
        kinds = collections.Counter(impl['kinds'])
        nfalsy = sum(1 for w in ex['workers'] if w[2] >= FALSY) + (
            0 if a is None or not a.get('prev') else sum(1 for b in a['prev'] if b == 'f'))
        shape = (f'{stream}: w={min(nw, 9) if nw < 9 else "9+"} falsy={"y" if nfalsy else "n"} getters={"y" if kinds["getter"] else "n"} '
                 f'trainers={sum(1 for _, d, _ in itab if d[0] == "functor" and d[-1] == "train")} '
                 f'assets={"none" if a is None else len(a["persistent"])}')
        expect = self._expected_failure(ex, a) if stream == 'valid' and impl['rank'] is not None else None
        if expect is not None:
            # the accessor refuses a load (not with MissingError), a dump or the commit: the failure has to escape - the
            # execution raises, nothing is committed; an actor silently run without its state is what must not happen
            what, kind = expect
            cls = type(fault_exc(kind)).__name__
            if impl['stage'] == 'run':
                self.case(key, f'{stream}: accessor fails the {what} ({kind}): the run raises', nontrivial=nw >= 3)
                if what == 'load' and not model_raised:
                    self.diverge('run outcome with a refused load', witness, impl['error'], 'no error value')
                if impl['error'] != cls:
                    self._mech(f'accessor raised {cls}, the execution raised {impl["error"]}')
                if impl.get('commits'):
                    self.violate(f'{pre}a generation was committed ({impl["commits"]}) although the {what} failed ({cls})',
                                 witness, 'commit-after-failure' + suf)
            else:
                self.case(key, f'{stream}: accessor fails the {what} ({kind}): the run completes', nontrivial=nw >= 3)
                got = sorted(repr(impl['values'][k]) for k, d, _ in itab if d[0] == 'functor')[:2]
                self.violate(f'{pre}the asset accessor failed the {what} of a persistent state with {cls} (not the documented '
                             f'MissingError) but executing the compiled table completed, committing {impl["commits"]}: '
                             f'tasks ran as {got}', witness, f'accessor-{what}-failure-swallowed' + suf)
            return
        if impl['stage'] == 'run':
            self.case(key, f'{stream}: run raises {impl["error"]}', nontrivial=False)
            if not model_raised and not (a and (a.get('dump_fault') or a.get('commit_fault'))):
                # (dump / commit failures of the accessor are not in the model: oracle only, valid stream only)
                self.diverge('run outcome', witness, impl['error'], 'no error value')
            if stream == 'valid' and impl['rank'] is not None:
                self.violate(f'{pre}executing the compiled table raises {impl["error"]} on a valid segment', witness,
                             f'run-raises-{impl["error"]}' + suf)
            return
        self.case(key, shape, nontrivial=nw >= 3,
                  sample={'workers': ex['workers'], 'edges': ex['edges'], 'assets': a, 'order': ex['order'],
                          'symbols': [d for _, d, _ in itab][:12]})
        if model_raised:
            self.diverge('run outcome', witness, 'ok', 'error value')
        # behaviour compared with the model: value of every task (functor), the committed generation, the dumped states
        ivals = sorted(repr(impl['values'][k]) for k, d, _ in itab if d[0] == 'functor')
        mvs = sorted(repr(mvals.get(k)) for k, d, _ in mtab if d[0] == 'functor')
        if ivals != mvs:
            diff = [x for x in ivals if x not in mvs][:2], [x for x in mvs if x not in ivals][:2]
            self.diverge('values of the tasks', witness, diff[0], diff[1])
        mcommit = [v[1] for k, v in mvals.items() if isinstance(v, list) and v and v[0] == 'committed']
        if impl['commits'] != mcommit:
            self.diverge('committed generation', witness, impl['commits'], mcommit)
        mdumps = sorted(repr(v[1]) for k, v in mvals.items() if isinstance(v, list) and v and v[0] == 'dumped')
        if sorted(map(repr, impl['dumps'])) != mdumps:
            self.diverge('dumped states', witness, sorted(map(repr, impl['dumps'])), mdumps)
        if isyms == msyms:
            iv = sorted(repr((ih[k], impl['values'][k])) for k, _, _ in itab)
            mv = sorted(repr((mh[k], mvals.get(k))) for k, _, _ in mtab)
            if iv != mv:
                self._mech('values of non-task symbols differ')
        if not impl['once']:
            self.diverge('harness interpreter executed an instruction more than once', witness, None, None)
        # ---- oracle on the real code -----------------------------------------------------------
        valid = impl['rank'] is not None and stream == 'valid'
        try:
            ovals, ocommit, ocalls = eval_graph(ex, a)
        except (Cyclic, Fault):
            return  # (a refused load on a segment that is not judged: malformed stream / D22)
        # Lean evalGraph == Python evalGraph (the two spec twins)
        if meval == 'cyclic':
            self.diverge('evalGraph: Lean spec calls the graph cyclic, the Python oracle does not', witness, 'acyclic', meval)
            return
        lvals = {u: v for u, v in meval[1]}
        if any(lvals.get(u) != v for u, v in ovals.items()):
            bad = next(u for u, v in ovals.items() if lvals.get(u) != v)
            self.diverge('evalGraph: Lean spec vs Python oracle', witness, ovals[bad], lvals.get(bad))
        lcommit = meval[2]
        if ocommit is not None and all(c is not None for c in ocommit) and len(ocommit) == len(a['persistent']):
            if lcommit == 'none' or lcommit[1] != ['committed', ocommit]:
                self.diverge('evalGraph commit: Lean spec vs Python oracle', witness, ocommit, lcommit)
        elif ocommit is None and lcommit != 'none':
            self.diverge('evalGraph commit: Lean spec vs Python oracle', witness, None, lcommit)
        if valid and mwf[1:] != ['true', 'true']:
            self.diverge('generated valid segment does not satisfy the Lean WF / assetsOK predicate', witness, 'valid', mwf)
        if valid and mspec[0] != 'true':
            self.diverge('model: compiled table differs from the table denoted by the segment (specTable)', witness,
                         'describes', mspec)
        if not valid:
            return
        if rnd:
            done = self.extra.setdefault('recompilations_judged', {})
            done[f'compile #{rnd + 1}'] = done.get(f'compile #{rnd + 1}', 0) + 1
        self._judge(impl, itab, ovals, ocommit, ocalls, a, ex, witness, suf, pre)
        # ---- re-execution of the same compiled table (instructions must not carry state across executions) ----------
        if a is None or not impl.get('reruns'):
            return
        pers = a['persistent']
        labels = ['2nd execution (store left by the 1st)', '3rd execution (after an external commit)',
                  '4th execution (after a commit from outside with a wrong number of states, to be refused)']
        mruns = mrerun[1:] if isinstance(mrerun, list) else []
        store = prev_values(a.get('prev'))  # the oracle's account of the previous generation, execution by execution
        last_commit = ocommit
        as_modelled = True  # the model: a commit with one state per group is accepted, any other refused
        for n, r in enumerate(impl['reruns']):
            label = labels[n]
            if last_commit is not None and all(c is not None for c in last_commit):
                store = [c[1] for c in last_commit]  # the table's own commit became the previous generation
            ext = r.get('external')
            if ext is not None:
                fits = len(ext['states']) == len(pers)
                if ext['refused'] is None:
                    store = ext['states']
                if (ext['refused'] is None) != fits:
                    as_modelled = False
                    self._mech(f'State.commit from outside: {len(ext["states"])} states for {len(pers)} groups '
                               f'{"refused" if ext["refused"] else "accepted"}')
            if 'error' in r:
                self.violate(f'{label}: executing the compiled table raises {r["error"]}', witness, f'rerun-raises-{r["error"]}')
                break
            rvals, rcommit, rcalls = eval_graph(ex, a, store)
            last_commit = rcommit
            self._judge(r, itab, rvals, rcommit, rcalls, a, ex, witness, '-rerun', label + ': ')
            if not as_modelled:
                continue
            if n < len(mruns):
                done = self.extra.setdefault('re_executions_compared_with_model', {})
                done[label] = done.get(label, 0) + 1
                mv = {repr(k): v for k, v in mruns[n]}
                iv = sorted(repr(r['values'][k]) for k, d, _ in itab if d[0] == 'functor')
                mm = sorted(repr(mv.get(k)) for k, d, _ in mtab if d[0] == 'functor')
                if iv != mm:
                    self.diverge(f'{label}: values of the tasks', witness, [x for x in iv if x not in mm][:2],
                                 [x for x in mm if x not in iv][:2])
                mc = [v[1] for v in mv.values() if isinstance(v, list) and v and v[0] == 'committed']
                if r['commits'] != mc:
                    self.diverge(f'{label}: committed generation', witness, r['commits'], mc)
            elif stream == 'valid':
                self.diverge(f'{label}: the model did not re-execute', witness, 'values', mrerun)

    def _judge(self, run, itab, ovals, ocommit, ocalls, a, ex, witness, suffix, label=''):
        """The oracle on one execution of the compiled table (real code) against direct graph evaluation."""
        functor_vals = sorted(repr(run['values'][k]) for k, d, _ in itab if d[0] == 'functor')
        want = sorted(repr(v) for v in ovals.values())
        if functor_vals != want:
            missing = [v for v in want if v not in functor_vals][:1]
            extra = [v for v in functor_vals if v not in want][:1]
            sig = 'dataflow-value' + ('-count' if len(functor_vals) != len(want) else '') + suffix
            self.violate(f'{label}compiled table computes {extra} where the task graph yields {missing} '
                         f'({len(functor_vals)} functors for {len(want)} workers)', witness, sig)
        if run['calls'] != ocalls:
            self.violate(f'{label}actor invocations {dict(run["calls"])} differ from one per task {dict(ocalls)}', witness,
                         'task-not-once' + suffix)
        if ocommit is None:
            if run['commits'] or run['dumps']:
                self.violate(f'{label}states dumped/committed ({run["commits"]}) although no persistent group is trained',
                             witness, 'commit-unexpected' + suffix)
        else:
            if run['commits'] != [ocommit]:
                self.violate(f'{label}committed {run["commits"]} but the persistent list demands {[ocommit]}', witness,
                             'commit-positions' + suffix)
            if sorted(map(repr, run['dumps'])) != sorted(repr(c[1]) for c in ocommit):
                self.violate(f'{label}dumped states differ from the trained states of the persistent groups', witness,
                             'dump-set' + suffix)
        # loads: only positions of persistent groups that are members of the segment
        if a is not None:
            gids = {w[1] for w in ex['workers'] if w[3]}
            allowed = {i for i, p in enumerate(a['persistent']) if p in gids}
            if not set(run['loads']) <= allowed:
                self.violate(f'{label}states loaded from positions {sorted(set(run["loads"]))}, persistent members are at '
                             f'{sorted(allowed)}', witness, 'load-positions' + suffix)
        elif run['loads']:
            self.violate(f'{label}state loaded without persistent assets', witness, 'load-positions' + suffix)

    # ---- streams ------------------------------------------------------------------------------
    def correspondence(self):
        rng = self.rng
        sys.unraisablehook = _quiet_unraisable
        self._batch(CORPUS, 'valid')
        self._batch(LONE, 'valid')
        self._batch(MALFORMED, 'malformed')
        fam = list(enum_trainer_ports(not self.quick))
        for chunk in range(0, len(fam), 1000):
            self._batch(fam[chunk:chunk + 1000], 'valid')
        self.notes.append(f'trainer feature/label port family: {len(fam)} segments')
        more = []
        for i, sp in enumerate(fam):
            if i % 4 == 0:
                # the trained fork is attached after the first compilation
                more.append(dict(sp, stages=[1 if sub[0] == 't' else 0 for sub in sp['subs']]))
            if i % 16 == 1 and sp['assets'] is not None:
                for kind in FAULTS:
                    more.append(dict(sp, assets={'persistent': [2], 'prev': [kind]}))
                more.append(dict(sp, assets={'persistent': [2], 'prev': [True], 'dump_fault': 'crash'}))
                more.append(dict(sp, assets={'persistent': [2], 'prev': [True], 'commit_fault': 'invalid'}))
        for base in (CORPUS[2], CORPUS[3]):
            tr = [i for i, sub in enumerate(base['subs']) if sub[0] == 't']
            for plan in ((1, 1), (1, 2), (2, 1), (0, 1)):
                if base is CORPUS[2] or plan in ((1, 1),):  # CORPUS[3]: both groups persistent - they move together
                    more.append(dict(base, stages=[plan[tr.index(i)] if i in tr else 0 for i in range(len(base['subs']))]))
        for chunk in range(0, len(more), 1000):
            self._batch(more[chunk:chunk + 1000], 'valid')
        self.notes.append(f'... of which staged (compiled again after the trainer was attached) / with a failing accessor: '
                          f'{len(more)} more')
        fam = list(enum_falsy())
        for chunk in range(0, len(fam), 1000):
            self._batch(fam[chunk:chunk + 1000], 'valid')
        self.notes.append(f'falsy payload kinds on the corpus shapes: {len(fam)} segments')
        cyc = [c for c in (gen_cyclic(rng, rng.choice([4, 5, 6, 8, 10])) for _ in range(self.n(60, 600))) if c]
        self._cyclic_batch(CYCLIC + cyc)
        specs = []
        for _ in range(self.n(1500, 9000)):
            hi = 12 if self.quick else 25
            size = rng.choice([2, 3, 3, 4, 5, 6, 8, 10, hi])
            spec = gen_bounded(rng, size)
            if rng.random() < 0.25:
                spec = stage_spec(rng, spec) or spec
            specs.append(spec)
        for chunk in range(0, len(specs), 500):
            self._batch(specs[chunk:chunk + 500], 'valid')
        mal = [gen_bounded(rng, rng.choice([3, 4, 6, 9]), mode='train', want_assets=True, malformed=True)
               for _ in range(self.n(60, 600))]
        self._batch(mal, 'malformed')
        # every segment over the 6-letter shape alphabet: exhaustive up to 3 (quick) / 4 (thorough) workers, plus a
        # fixed stride sample of the next size (1.1 million shapes with 5 workers: sampled, not exhausted)
        full, nxt, want = (3, 4, 2500) if self.quick else (4, 5, 100000)
        small = list(enum_small(full))
        total = 0
        sample = []
        for i, spec in enumerate(enum_small(nxt)):
            total += 1
        stride = max(1, total // want)
        offset = rng.randrange(stride)
        for i, spec in enumerate(enum_small(nxt)):
            if i % stride == offset:
                sample.append(spec)
        self.notes.append(f'small shapes: all {len(small)} with <= {full} workers x asset variants; {len(sample)} of the '
                          f'{total} with <= {nxt} workers (stride {stride})')
        for part in (small, sample):
            for chunk in range(0, len(part), 1000):
                self._batch(part[chunk:chunk + 1000], 'valid')
        self._selftest()

    def _selftest(self):
        """Planted divergence (model and comparison code only, independent of the implementation): the DESIGN shape
        compiled by the model with its label subscriptions dropped must not compare equal to the intact one."""
        spec = CORPUS[2]
        ws = [[i, nd['group'], spec['groups'][nd['group']]['actor'], spec['groups'][nd['group']]['stateful'], nd['szin'],
               nd['szout']] for i, nd in enumerate(spec['nodes'])]
        es = []
        for sub in spec['subs']:
            if sub[0] == 'a':
                es.append([sub[3], sub[4], sub[1], 'a', sub[2]])
            else:
                es += [[sub[2], sub[3], sub[1], 't', 0], [sub[4], sub[5], sub[1], 'l', 1]]
        good = {'workers': ws, 'edges': es, 'head': 0, 'tail': 7, 'elsewhere': []}
        bad = dict(good, edges=[e for e in es if e[3] != 'l'])
        order = list(range(len(ws)))
        assets = assets_sexp(spec['assets'], len(spec['groups']))
        ans = self.model([sexp.dumps(['compile', seg_sexp(x), assets, order]) for x in (good, bad)])
        mg, mb = (sexp.num(sexp.loads(a)) for a in ans)
        if mg[0] != 'ok':
            raise fw.MachineryError(f'self-test: the model does not compile the DESIGN shape: {mg!r}')
        if mb[0] == 'ok' and sorted(tree_hashes(model_table(mb[1])).values()) == sorted(tree_hashes(model_table(mg[1])).values()):
            raise fw.MachineryError('planted divergence (dropped label edges) was not detected by the table comparison')
        self.notes.append('planted-divergence self-test: detected')

    # ---- failing-input search -----------------------------------------------------------------
    def search(self, reason):
        before = len(self.violations)
        seeds = [d.case['spec'] for d in self.divergences if isinstance(d.case, dict) and 'spec' in d.case][:40]
        # the diverging cases themselves were already run through the oracle; widen around them
        n = 0
        small = list(enum_small(4))
        for chunk in range(0, len(small), 1000):
            self._batch(small[chunk:chunk + 1000], 'valid')
            n += len(small[chunk:chunk + 1000])
            if len(self.violations) > before:
                break
        if len(self.violations) == before:
            specs = [gen_bounded(self.rng, self.rng.choice([3, 4, 5, 6, 8, 12, 20])) for _ in range(self.n(1500, 6000))]
            for chunk in range(0, len(specs), 500):
                self._batch(specs[chunk:chunk + 500], 'valid')
                n += 500
                if len(self.violations) > before:
                    break
        self.violations[before:] = [self._shrink(v) for v in self._dedupe(self.violations[before:])]
        self.notes.append(f'failing-input search ({reason}): {n} further segments, {len(seeds)} diverging seeds')

    @staticmethod
    def _dedupe(vs):
        seen, out = set(), []
        for v in sorted(vs, key=lambda v: len(v.witness['spec']['nodes'])):
            if v.signature not in seen:
                seen.add(v.signature)
                out.append(v)
        return out

    def _oracle_only(self, spec):
        """Signatures of the oracle violations of one spec on the real code (no model involved)."""
        probe = C01(self.tier, self.seed)
        probe.model = lambda lines: [_FAKE_ALL] * len(lines)  # type: ignore
        impl = run_impl(spec)
        if impl['stage'] == 'build':
            return []
        try:
            for rnd, view, r in self._rounds(spec, impl):
                r['rank'] = topo_rank(r['export'])
                probe._compare(view, r, sexp.num(sexp.loads(_FAKE_ALL)), 'valid', rnd, spec)
        except Exception:  # pylint: disable=broad-except
            return probe.violations
        return probe.violations

    def _shrink(self, v):
        """Greedy shrinking by deleting the last nodes / single subscriptions while the same signature fails."""
        spec = v.witness['spec']
        best = v
        improved = True
        while improved:
            improved = False
            for cand in _smaller(spec):
                got = [x for x in self._oracle_only(cand) if x.signature == v.signature]
                if got:
                    spec, best, improved = cand, got[0], True
                    break
        return best

    def replay_finding(self, entry):
        sys.unraisablehook = _quiet_unraisable
        w = entry['witness']
        got = self._oracle_only(w['spec'])
        return got[0] if got else None


_FAKE_ALL = '(all (ok ()) skip (ok () none) (ok () (ok ()) true true ok) (ok true true) (true true) (reruns))'


def _smaller(spec):
    """Candidate reductions: drop the assets, drop a non-head non-tail node with everything attached to it."""
    if spec.get('assets') is not None:
        yield dict(spec, assets=None)
        a = spec['assets']
        for i in range(len(a['persistent'])):
            yield dict(spec, assets={'persistent': a['persistent'][:i] + a['persistent'][i + 1:], 'prev': None})
    n = len(spec['nodes'])
    for victim in range(n - 1, -1, -1):
        if victim in (spec['head'], spec['tail']):
            continue
        if any((s[0] == 'a' and s[3] == victim) or (s[0] == 't' and victim in (s[2], s[4])) for s in spec['subs']):
            continue  # still publishes to somebody

        def ren(i):
            return i - 1 if i > victim else i

        subs, stages = [], []
        for s, st in zip(spec['subs'], spec.get('stages') or [0] * len(spec['subs'])):
            if s[1] == victim:
                continue
            subs.append(['a', ren(s[1]), s[2], ren(s[3]), s[4]] if s[0] == 'a' else ['t', ren(s[1]), ren(s[2]), s[3], ren(s[4]), s[5]])
            stages.append(st)
        if max(stages or [0]) < max(spec.get('stages') or [0]):
            stages = [min(st, 1) for st in stages]  # a stage became empty: keep the stage numbers contiguous
        yield dict(spec, nodes=spec['nodes'][:victim] + spec['nodes'][victim + 1:], subs=subs, head=ren(spec['head']),
                   tail=None if spec['tail'] is None else ren(spec['tail']), stages=stages)


if __name__ == '__main__':
    raise SystemExit(fw.run(C01))
