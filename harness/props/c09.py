"""C09 — feed selection (`io.Importer`) vs the source resolution of the selected feed's parser, against
lean/ForML/Model/Matcher.lean.

A case = (statement, pool of 1..3 feeds).  Every feed is a real `io.Feed` subclass (registered provider, so that lazily
configured `setup.Feed` descriptors with a priority work as well as explicit instances) advertising an arbitrary set
of DSL sources: tables, references, joins, sets, sub-queries of the statement, near misses of those, unrelated ones.

implementation  `io.Importer(*feeds).match(statement)`; per feed the single-feed importer (does its matcher accept?) and
                the feed's own parser on the statement (`Feed.Reader.parser(sources, features)` + `accept` + `fetch`):
                `ok` / `UnprovisionedError` / any other exception
model           `(c09 statement pool)` -> selected index, covers per feed, resolves per feed
oracle          the property text on ASTs (independent of the model): coverage = every table read is advertised or lies
                under an advertised sub-statement; the returned feed covers and no covering feed has a higher priority;
                MissingError iff nobody covers; the selected feed's parser does not report an unprovisioned source; a
                feed that does not cover does not parse.
"""
from __future__ import annotations

import itertools
import typing

from core import framework as fw
from core import sexp

from . import dslgen as g

NONTABLE = ('ref', 'join', 'set', 'query')
ALIAS = 'verif-c09-double'
ALIAS_SQL = 'verif-c09-alchemy'

#: what the feed doubles advertise: feed key -> {dsl source object: parser-native stand-in}
_ADVERTISED: dict = {}
_CACHE: dict = {}


# ---- AST helpers (spec side; no forml involved) --------------------------------------------------------------------
def children(node) -> tuple:
    """Sources a source node reads directly."""
    tag = node[0]
    if tag == 'table':
        return ()
    if tag in ('ref', 'query'):
        return (node[1],)
    return (node[1], node[2])


def subsources(node):
    """All nodes of the source skeleton (pre-order); sources that only occur inside features are not read through."""
    yield node
    for c in children(node):
        yield from subsources(c)


def tables_of(node) -> list:
    return [n for n in subsources(node) if n[0] == 'table']


def spec_covers(advertised: frozenset, node) -> bool:
    """Property text: the advertised sources cover everything the statement reads, directly or through an advertised
    sub-statement."""
    if node in advertised:
        return True
    if node[0] == 'table':
        return False
    return all(spec_covers(advertised, c) for c in children(node))


def hidden_tables(advertised: frozenset, node, above=None):
    """[(table, kind of the outermost advertised sub-statement above it)] for the unadvertised tables the statement
    reads through an advertised sub-statement."""
    if above is None and node in advertised and node[0] != 'table':
        above = node[0]
    if node[0] == 'table':
        if node not in advertised and above is not None:
            yield node, above
        return
    for c in children(node):
        yield from hidden_tables(advertised, c, above)


def tuplify(x):
    if isinstance(x, list):
        return tuple(tuplify(i) for i in x)
    return x


def listify(x):
    if isinstance(x, tuple):
        return [listify(i) for i in x]
    return x


# ---- the real feeds ------------------------------------------------------------------------------------------------
def _doubles():
    """(feed class with the tuple parser, feed class with the SQLAlchemy parser, descriptor class); created once per
    process (providers register themselves by reference)."""
    if 'cls' in _CACHE:
        return _CACHE['cls']
    from forml import io, setup
    from forml.io import dsl
    from forml.io.dsl import parser as parsmod
    from forml.provider.feed.reader import alchemy

    class TupleParser(parsmod.Visitor):
        """Minimal concrete parser: every `generate_*` wraps its arguments into a tuple; the source resolution
        (`resolve_source`, `bypass`, `visit_*`) is the inherited code under test.  Elements fall back to their name
        like in the SQLAlchemy parser (no feature mapping is provided)."""

        def resolve_feature(self, feature):
            try:
                return super().resolve_feature(feature)
            except dsl.UnprovisionedError:
                if isinstance(feature, dsl.Element):
                    return ('col', feature.name)
                raise

        def generate_element(self, origin, element):
            return ('elem', origin, element)

        def generate_literal(self, value, kind):
            return ('lit', value)

        def generate_expression(self, expression, arguments):
            return ('expr', expression.__name__) + tuple(arguments)

        def generate_alias(self, feature, alias):
            return ('alias', feature, alias)

        def generate_join(self, left, right, condition, kind):
            return ('join', left, right, condition, kind.value)

        def generate_set(self, left, right, kind):
            return ('set', left, right, kind.value)

        def generate_query(self, source, features, where, groupby, having, orderby, rows):
            return ('query', source, tuple(features), where, tuple(groupby), having, tuple(orderby), rows)

        def generate_reference(self, instance, name):
            return ('ref', instance, name), ('handle', name)

    class Double(io.Feed, alias=ALIAS):
        """Feed advertising `_ADVERTISED[key]`."""

        class Reader(io.Feed.Reader):
            @classmethod
            def parser(cls, sources, features):
                return TupleParser(sources, features)

            @classmethod
            def read(cls, statement, **kwargs):
                raise NotImplementedError

        def __init__(self, key: int):
            super().__init__()
            self.key = key

        @property
        def sources(self):
            return _ADVERTISED[self.key]

    class DoubleSql(io.Feed, alias=ALIAS_SQL):
        """The same with the SQLAlchemy reader shipped with forml."""

        Reader = alchemy.Reader

        def __init__(self, key: int):
            super().__init__()
            self.key = key

        @property
        def sources(self):
            return _ADVERTISED[self.key]

    class Conf(setup.Feed):
        """A `[FEED.x]` descriptor without a config file (as tests/io/_input/test_input.py does)."""

        def __new__(cls, reference: str, priority: float, key: int):
            return tuple.__new__(cls, [reference, float(priority), {'key': key}])

    _CACHE['cls'] = (Double, DoubleSql, Conf)
    return _CACHE['cls']


def _native(i: int, ast, sql: bool):
    if not sql:
        return ('native', i)
    import sqlalchemy

    return sqlalchemy.table(ast[1].lower() if ast[0] == 'table' else f'denorm{i}')


class Case(typing.NamedTuple):
    statement: tuple  # AST
    pool: tuple  # ((priority | None, (advertised AST, ...)), ...)   None = explicit instance; priority in halves
    before: tuple = ()  # statements the SAME importer instance was asked before (request history)


def case_json(case: Case) -> dict:
    out = {'statement': listify(case.statement),
           'pool': [{'priority2': p, 'advertised': [listify(a) for a in adv]} for p, adv in case.pool]}
    if case.before:
        out['asked_before_on_the_same_importer'] = [listify(b) for b in case.before]
    return out


def case_from_json(w: dict) -> Case:
    return Case(tuplify(w['statement']), tuple((f['priority2'], tuple(tuplify(a) for a in f['advertised'])) for f in w['pool']),
                tuple(tuplify(b) for b in w.get('asked_before_on_the_same_importer', ())))


class Observed(typing.NamedTuple):
    statement: tuple  # AST read back from the real statement
    pool: tuple  # ((priority2 | None, frozenset of ASTs read back from the real advertised sources), ...)
    selected: typing.Any  # index | None (MissingError) | ('error', class)
    stable: bool  # a second match() returned the same feed
    identity: bool  # an explicit instance is returned as that very object
    covers: tuple  # per feed: True / False / ('error', class)   (single-feed importer)
    parses: tuple  # per feed: 'ok' | 'unprovisioned' | 'other:<class>'
    earlier: int = 0  # number of requests the importer instance had answered before this one


def observe(case: Case, sql: bool = False, split_builders: bool = False, via_config: bool = False) -> Observed:
    """The real code's answer to `case.statement` (after `case.before` on the same importer instance)."""
    return observe_all(case, sql, split_builders, via_config)[-1]


def observe_all(case: Case, sql: bool = False, split_builders: bool = False, via_config: bool = False) -> list:
    """Run the real code on one case: ONE `io.Importer` instance answers `case.before + (case.statement,)` in that
    order; one `Observed` per request.  `via_config`: the lazily configured feeds are `[FEED.<ref>]` sections of the
    platform configuration resolved by `setup.Feed(<ref>)` (provider, priority - omitted when 0 -, params), otherwise the
    descriptor tuples are built directly."""
    import forml
    from forml import io, setup
    from forml.io import dsl
    from forml.setup import _conf

    Double, DoubleSql, Conf = _doubles()
    cls, alias = (DoubleSql, ALIAS_SQL) if sql else (Double, ALIAS)
    b1 = g.Builder()
    b2 = g.Builder() if split_builders else b1
    base = _CACHE['key'] = _CACHE.get('key', 0) + 16
    keys = [base + i for i in range(len(case.pool))]
    saved = _conf.CONFIG.get(setup.Feed.GROUP)
    try:
        slots, explicit, readback = [], {}, []
        if via_config:
            sections = dict(saved or {})
            for i, (prio, _) in enumerate(case.pool):
                if prio is not None:
                    section = {'provider': alias, 'key': keys[i]}
                    if prio != 0:
                        section['priority'] = prio / 2 if prio % 2 else prio // 2
                    sections[f'c09-{keys[i]}'] = section
            dict.__setitem__(_conf.CONFIG, setup.Feed.GROUP, sections)
        for i, (prio, adv) in enumerate(case.pool):
            mapping = {}
            for j, a in enumerate(adv):
                mapping[b2.build(a)] = _native(j, a, sql)
            _ADVERTISED[keys[i]] = mapping
            readback.append((prio, frozenset(g.to_ast(o) for o in mapping)))
            if prio is None:
                explicit[i] = cls(key=keys[i])
                slots.append(explicit[i])
            elif via_config:
                slots.append(setup.Feed(f'c09-{keys[i]}'))
            else:
                slots.append(Conf(alias, prio / 2, keys[i]))
        importer = io.Importer(*slots)
        out = []
        for earlier, ast in enumerate(case.before + (case.statement,)):
            stmt = b1.build(ast)  # rebuilt for every request: a repeated statement is an equal, not the identical object
            out.append(_request(importer, stmt, keys, explicit, cls, tuple(readback), earlier))
        return out
    finally:
        if saved is None:
            dict.pop(_conf.CONFIG, setup.Feed.GROUP, None)
        else:
            dict.__setitem__(_conf.CONFIG, setup.Feed.GROUP, saved)
        for k in keys:
            _ADVERTISED.pop(k, None)


def _request(importer, stmt, keys, explicit, cls, readback, earlier) -> Observed:
    """one `importer.match(stmt)` on the shared instance + the per-feed verdicts of fresh single-feed importers / parsers"""
    import forml
    from forml import io
    from forml.io import dsl

    stable = identity = True
    try:
        feed = importer.match(stmt)
        selected = keys.index(feed.key)
        stable = importer.match(stmt) is feed
        if selected in explicit:
            identity = feed is explicit[selected]
    except forml.MissingError as err:
        selected = None if type(err) is forml.MissingError else ('error', type(err).__name__)
    except Exception as err:  # pylint: disable=broad-except
        selected = ('error', type(err).__name__)
    covers, parses = [], []
    for i in range(len(keys)):
        feed = cls(key=keys[i])
        try:
            covers.append(io.Importer(feed).match(stmt) is feed)
        except forml.MissingError as err:
            covers.append(False if type(err) is forml.MissingError else ('error', type(err).__name__))
        except Exception as err:  # pylint: disable=broad-except
            covers.append(('error', type(err).__name__))
        try:
            with feed.Reader.parser(feed.sources, feed.features) as visitor:
                stmt.accept(visitor)
                visitor.fetch()
            parses.append('ok')
        except dsl.UnprovisionedError:
            parses.append('unprovisioned')
        except Exception as err:  # pylint: disable=broad-except
            parses.append(f'other:{type(err).__name__}')
    return Observed(g.to_ast(stmt), readback, selected, stable, identity, tuple(covers), tuple(parses), earlier)


def oracle(obs: Observed) -> list:
    """The property text evaluated on what the real code did.  Returns [(what, signature)]."""
    out = []
    s = obs.statement
    n = len(obs.pool)
    cov = [spec_covers(adv, s) for _, adv in obs.pool]
    rank = [float('inf') if p is None else p for p, _ in obs.pool]
    sel = obs.selected
    if isinstance(sel, tuple):
        out.append((f'Importer.match raised {sel[1]}', 'match-raises-' + sel[1]))
    elif sel is None:
        if any(cov):
            i = cov.index(True)
            out.append((f'MissingError although feed {i} of {n} covers everything the statement reads',
                        'missing-error-though-a-feed-covers'))
    else:
        if not cov[sel]:
            out.append((f'feed {sel} of {n} was selected although it lacks a source the statement reads',
                        'selected-feed-does-not-cover'))
        better = [i for i in range(n) if cov[i] and rank[i] > rank[sel]]
        if better:
            out.append((f'feed {sel} (priority {rank[sel] / 2}) was selected although feed {better[0]} (priority '
                        f'{rank[better[0]] / 2}) covers the statement too', 'selected-not-highest-priority'))
        if not obs.stable:
            out.append(('a second match() of the same statement returned another feed', 'match-not-stable'))
        if not obs.identity:
            out.append(('the explicit feed instance was not returned as such', 'explicit-instance-replaced'))
        if cov[sel] and obs.parses[sel] == 'unprovisioned':
            adv = obs.pool[sel][1]
            kinds = {k for _, k in hidden_tables(adv, s)}
            if not kinds:
                out.append((f'the parser of the selected feed {sel} reports an unprovisioned source although every '
                            'table the statement reads is advertised', 'selected-parser-unprovisioned-all-tables-advertised'))
            if kinds & {'join', 'set', 'query'}:
                k = sorted(kinds & {'join', 'set', 'query'})[0]
                out.append((f'the parser of the selected feed {sel} reports an unprovisioned source below the {k} the '
                            'feed advertises', 'selected-parser-unprovisioned-under-advertised-statement'))
            if 'ref' in kinds:
                out.append((f'the parser of the selected feed {sel} reports an unprovisioned source below the reference '
                            'the feed advertises', 'selected-parser-unprovisioned-under-advertised-reference'))
    if obs.earlier:
        out = [(f'{what} (request {obs.earlier + 1} on the same importer instance)', sig) for what, sig in out]
    for i in range(n):
        if not cov[i] and obs.parses[i] == 'ok':
            out.append((f'feed {i} lacks a source the statement reads, yet its parser resolves the statement',
                        'passed-over-feed-parses'))
    return out


# ---- generation ----------------------------------------------------------------------------------------------------
SAFE_MUTATIONS = ('alias', 'operator', 'cast-kind', 'column', 'direction', 'reference-name', 'join-kind', 'set-kind', 'rows',
                  'table')  # 'literal' is left out: hash-colliding literals compare equal in forml (C08's subject)

A, B, C = g.STUDENT, g.SCHOOL, g.CAMPUS
_JAB = ('join', A, B, 'cross', None)
_RA = ('ref', A, 'r')
_ON = ('expr', 'eq', ('elem', A, 'school'), ('elem', B, 'id'))
_JON = ('join', A, B, 'inner', _ON)
_QJ = ('query', _JON, (('elem', A, 'name'), ('alias', ('elem', B, 'name'), 'sname')), None, (), None, (), None)
_QRA = ('query', _RA, (('elem', _RA, 'name'),), None, (), None, (), None)
_QA = ('query', A, (('elem', A, 'name'),), None, (), None, (), None)
_QA2 = ('query', A, (('elem', A, 'name'),), ('expr', 'gt', ('elem', A, 'level'), ('lit', ('int', 1))), (), None, (), None)
_SET = ('set', _QA, _QA2, 'union')
_QQ = ('query', ('ref', _QA, 's'), (('elem', ('ref', _QA, 's'), 'name'),), None, (), None, (), None)

CORPUS = [
    Case(_JAB, ((None, (_JAB,)),)),  # C09-F1 witness
    Case(_RA, ((None, (_RA,)),)),  # C09-F2 witness
    Case(_QJ, ((None, (_JON,)),)),  # DESIGN D10 as observed by hand
    Case(_QJ, ((None, (_JON, A, B)),)),
    Case(_QJ, ((2, (A,)), (2, (A, B)), (2, (B, A)))),  # ties: construction order
    Case(_QJ, ((2, (A, B)), (8, (B, A)), (None, (A,)))),  # explicit instance first but not covering
    Case(_QJ, ((2, (A, B)), (None, (A, B)), (40, (A, B)))),
    Case(_QJ, ((2, (A, C)), (3, (B,)))),  # nobody covers: twin table does not count
    Case(_QRA, ((0, (_RA,)), (0, (A,)))),
    Case(_QRA, ((-3, (A,)), (-4, (_QRA,)))),
    Case(_SET, ((1, (_SET,)), (1, (A,)))),
    Case(_SET, ((1, (_QA,)), (1, (_QA, _QA2)), (0, (A,)))),
    Case(_QQ, ((1, (_QA,)), (1, (('ref', _QA, 's'),)), (1, (A,)))),
    Case(_QQ, ((1, (('ref', _QA, 'other'),)),)),
    Case(A, ((1, ()), (1, (A,)))),
    Case(('join', A, ('ref', A, 'r'), 'inner', ('expr', 'eq', ('elem', A, 'id'), ('elem', ('ref', A, 'r'), 'id'))),
         ((1, (('ref', A, 'r'),)), (1, (A,)))),
]


_QB = ('query', B, (('elem', B, 'name'),), None, (), None, (), None)
HISTORIES = [
    # the high-priority feed lacks a table of the first request and covers the later ones
    Case(_QA, ((10, (A,)), (2, (A, B))), (_QB,)),
    Case(_QA, ((10, (A,)),), (_QB, _QA, _QB)),
    Case(_QJ, ((None, (A, B)), (3, (A, B, C))), (('query', C, (('elem', C, 'name'),), None, (), None, (), None), _QA)),
    Case(A, ((4, (A,)), (4, (B,))), (B, A, B, C)),
    Case(_QB, ((1, (B,)), (9, (A,))), (_QA, _QA, _QB, _QA)),
]


class C09(fw.Check):
    ID = 'C09'
    LEAN_MODULES = ['ForML.Props.C09']
    DRIVER = 'drv_c09'
    RULE = ('(statement, pool) pairs: statements from the shared typed DSL generator over the 3-table catalog (queries, sets, '
            'joins, references, bare tables; depth 1-2) x pools of 1..3 real io.Feed subclasses (explicit instances = infinite '
            'priority, or lazily configured setup.Feed descriptors with priorities in halves incl. ties and negatives) whose '
            'advertised sources are subsets of {tables, references, joins, sub-queries, sets of the statement} + near misses '
            '(one leaf changed) + unrelated sources; plus request histories: 2..6 match() calls on ONE importer instance over 2..3 distinct statements with repetitions, each request '
            'a case of its own; a case is distinct by (statement, pool, earlier requests) and non-trivial when a feed '
            'advertises a non-table or the pool has >= 2 feeds.  Compared with the model: selected index (single-shot, and matchSeq for histories), matcher verdict per '
            'feed, parser verdict per feed (tuple parser on every case, SQLAlchemy parser on a third).  Oracle = the property text '
            'on the ASTs read back from the real objects.')
    TRUSTED = [
        'source equality inside frozenset/dict is structural on the generated cases (hash-colliding literals are excluded from '
        'the near misses: C08)',
        'the tuple parser double implements only generate_* (pure wrappers); resolve_source/bypass/visit_* are forml code',
    ]
    ASSUMPTIONS = ['priorities are finite floats (no NaN); ties are resolved in construction order as documented ("the first feed '
                   'with the highest priority")',
                   'setup.Feed descriptors are instantiated through the provider registry (the config-file parsing is not '
                   'exercised)',
                   'parser failures other than UnprovisionedError (unsupported constructs, D5) are outside this property and are '
                   'only counted']

    # ---- generation ------------------------------------------------------------------------------
    def _statement(self, gen):
        r = self.rng
        choice = r.random()
        if choice < 0.8:
            return gen.statement(r.choice((1, 1, 2)))
        if choice < 0.9:
            return gen.origin(r.choice((1, 2)))
        return gen.query(2, named=True)

    @staticmethod
    def _builds(ast) -> bool:
        """the public DSL API accepts the statement (the generator is typed, a near miss need not be)"""
        try:
            return g.to_ast(g.Builder().build(ast)) is not None
        except Exception:  # pylint: disable=broad-except
            return False

    @staticmethod
    def _parseable(ast) -> bool:
        """a feed advertising every table gets its parser through the statement (otherwise the parser fails for reasons
        outside this property - unsupported constructs, non-predicate filters - before or while it resolves sources)"""
        try:
            return observe(Case(ast, ((None, tuple(tables_of(ast))),))).parses[0] == 'ok'
        except Exception:  # pylint: disable=broad-except
            return False

    def _near(self, node):
        muts = [m for label, m in g.leaf_mutations(node, self.rng) if label in SAFE_MUTATIONS and m != node]
        self.rng.shuffle(muts)
        for m in muts[:4]:
            if g.well_formed(m)[0] and self._builds(m):
                return m
        return None

    def _advertised(self, stmt, other) -> tuple:
        r = self.rng
        subs = list(dict.fromkeys(subsources(stmt)))
        tabs = [n for n in subs if n[0] == 'table']
        nont = [n for n in subs if n[0] != 'table']
        mode = r.choice(('tables', 'tables', 'cut', 'cut', 'cut', 'random', 'random', 'near', 'whole', 'foreign', 'empty'))
        adv: list = []
        if mode == 'tables':
            adv = list(tabs)
            if r.random() < 0.4 and adv:
                adv.remove(r.choice(adv))
            adv += [n for n in nont if r.random() < 0.25]
        elif mode in ('cut', 'near') and nont:
            cut = r.choice(nont)
            inside = set(subsources(cut))
            adv = [t for t in tabs if t not in inside or r.random() < 0.2]
            # tables that also occur outside the cut have to be advertised for a cover
            outside = [n for n in self._outside(stmt, cut) if n[0] == 'table']
            adv += [t for t in outside if t not in adv]
            if mode == 'near':
                near = self._near(cut)
                adv.append(near if near is not None else cut)
            else:
                adv.append(cut)
            if r.random() < 0.25 and adv:
                adv.remove(r.choice(adv))
            if r.random() < 0.3:
                adv.append(r.choice(subs))
        elif mode == 'whole':
            adv = [stmt] + [t for t in tabs if r.random() < 0.3]
        elif mode == 'foreign':
            adv = [n for n in dict.fromkeys(subsources(other)) if r.random() < 0.5]
        elif mode == 'empty':
            adv = []
        else:
            p = r.choice((0.3, 0.5, 0.8))
            adv = [n for n in subs + list(g.CATALOG) if r.random() < p]
        r.shuffle(adv)
        return tuple(dict.fromkeys(adv))

    @staticmethod
    def _outside(stmt, cut):
        """nodes of the skeleton that are reached without passing through `cut`"""
        def walk(node):
            if node == cut:
                return
            yield node
            for c in children(node):
                yield from walk(c)
        return list(walk(stmt))

    def _pool(self, stmt, other) -> tuple:
        r = self.rng
        n = r.choice((1, 2, 2, 3, 3))
        levels = r.choice(((2, 2, 2), (0, 2, 2), (1, 4, 9), (-4, 0, 5), (3, 3, 40), (-1, -1, -3), (5, 4, 4)))
        pool = []
        for i in range(n):
            prio = None if r.random() < 0.25 else r.choice(levels)
            pool.append((prio, self._advertised(stmt, other)))
        if n > 1 and r.random() < 0.3:
            # the same advertised set at different positions / priorities: only the order decides
            pool[r.randrange(n)] = (pool[0][0] if r.random() < 0.5 else r.choice(levels), pool[0][1])
        return tuple(pool)

    def _histories(self, gen) -> list:
        """Request histories: 2..6 `match()` calls on ONE importer instance over 2..3 distinct statements (repetitions hit
        the lru_cache with an equal, not identical, statement); every feed is drawn to suit one of the statements (or two),
        so that a feed typically fails to cover one request and covers a later one, and vice versa."""
        r = self.rng
        out = list(HISTORIES)
        wanted = len(out) + self.n(130, 1300)
        while len(out) < wanted:
            distinct = []
            while len(distinct) < r.choice((2, 2, 3)):
                stmt = self._statement(gen) if r.random() < 0.7 else r.choice(g.CATALOG)
                if stmt not in distinct and self._builds(stmt) and (self._parseable(stmt) or r.random() < 0.1):
                    distinct.append(stmt)
            asked = list(distinct) + [r.choice(distinct) for _ in range(r.randint(0, 6 - len(distinct)))]
            r.shuffle(asked)
            levels = r.choice(((2, 2, 2), (0, 2, 2), (1, 4, 9), (-4, 0, 5), (5, 4, 4)))
            pool = []
            for _ in range(r.choice((1, 2, 2, 3, 3))):
                target = r.choice(distinct)
                adv = self._advertised(target, r.choice(distinct))
                if r.random() < 0.3:
                    adv = tuple(dict.fromkeys(adv + self._advertised(r.choice(distinct), target)))
                pool.append((None if r.random() < 0.25 else r.choice(levels), adv))
            out.append(Case(asked[-1], tuple(pool), tuple(asked[:-1])))
        return out

    def _cases(self) -> list:
        gen = g.Gen(self.rng, small_ints=True)
        cases = list(CORPUS)
        wanted, skipped, unparseable = len(cases) + self.n(600, 6000), 0, 0
        while len(cases) < wanted:
            stmt = self._statement(gen)
            other = self._statement(gen)
            if not (self._builds(stmt) and self._builds(other)):
                skipped += 1
                if skipped > 3 * wanted:
                    raise fw.MachineryError('the DSL generator mostly produces statements forml rejects')
                continue
            if not self._parseable(stmt) and self.rng.random() < 0.9:
                unparseable += 1
                if unparseable > 20 * wanted:
                    raise fw.MachineryError('no generated statement gets through the parser of a fully provisioned feed')
                continue
            cases.append(Case(stmt, self._pool(stmt, other)))
        cases.extend(self._histories(gen))
        self.extra['generated_statements_rejected_by_forml'] = skipped
        self.extra['generated_statements_mostly_dropped_as_unparseable'] = unparseable
        if not self.quick:
            # exhaustive: every subset of the sub-sources (at most 8 of them) for 30 base statements, single feed
            done = 0
            while done < 30:
                stmt = gen.statement(2) if self.rng.random() < 0.7 else gen.origin(2)
                subs = list(dict.fromkeys(subsources(stmt)))
                if len(subs) < 4 or not self._builds(stmt) or not self._parseable(stmt):
                    continue
                if len(subs) > 8:
                    subs = self.rng.sample(subs, 8)
                done += 1
                for k in range(len(subs) + 1):
                    for combo in itertools.combinations(subs, k):
                        cases.append(Case(stmt, ((None, combo),)))
        return cases

    # ---- one batch: real code, model, oracle -----------------------------------------------------
    @staticmethod
    def line(obs: Observed) -> str:
        pool = tuple(('inf' if p is None else p, tuple(g.short(a) for a in sorted(adv, key=repr))) for p, adv in obs.pool)
        return sexp.dumps(g.with_let(('c09', g.short(obs.statement), pool)))

    @staticmethod
    def parse_answer(ans: str):
        m = sexp.loads(ans)
        if not isinstance(m, list) or m[0] != 'ok':
            return None
        sel = None if m[1] == 'none' else int(m[1][1])
        return sel, [x == 'true' for x in m[2]], [x == 'true' for x in m[3]]

    @staticmethod
    def _shape(obs: Observed) -> str:
        n = len(obs.pool)
        nont = 'sub-statements' if any(a[0] != 'table' for _, adv in obs.pool for a in adv) else 'tables-only'
        if obs.selected is None:
            res = 'missing'
        elif isinstance(obs.selected, tuple):
            res = 'error'
        else:
            res = 'selected/' + obs.parses[obs.selected].split(':')[0]
        return f'feeds={n} advertised={nont} -> {res}'

    def _check(self, cases: list, tag: str = '') -> None:
        """Every request of every case (a case with `before` is a request history answered by ONE importer instance) is
        compared with the single-shot model and judged by the oracle; a history is also compared with `matchSeq`."""
        entries, first, seqs = [], {}, []  # entries: (case of that request, observed, case index)
        for idx, case in enumerate(cases):
            run = observe_all(case, sql=False, split_builders=idx % 2 == 1, via_config=idx % 4 >= 2)
            asked = case.before + (case.statement,)
            for j, obs in enumerate(run):
                entries.append((Case(asked[j], case.pool, asked[:j]), obs, idx))
            if case.before:
                seqs.append((case, run))
        lines = [self.line(o) for _, o, _ in entries]
        for case, run in seqs:
            pool = tuple(('inf' if p is None else p, tuple(g.short(a) for a in sorted(adv, key=repr))) for p, adv in run[0].pool)
            lines.append(sexp.dumps(g.with_let(('c09seq', tuple(g.short(o.statement) for o in run), pool))))
        answers = self.model(lines)
        for (case, run), ans in zip(seqs, answers[len(entries):]):
            m = sexp.loads(ans)
            got = [o.selected for o in run]
            want = None if not isinstance(m, list) or m[0] != 'ok' else [None if x == 'none' else int(x[1]) for x in m[1]]
            if got != want:
                self.diverge('answers of one importer instance to a request history', case_json(case), got, want)
        sql_done = set()
        for (case, obs, idx), ans in zip(entries, answers):
            nontrivial = len(obs.pool) > 1 or any(a[0] != 'table' for _, adv in obs.pool for a in adv)
            hist = f'history[{len(cases[idx].before) + 1}] ' if cases[idx].before else ''
            self.case((obs.statement, obs.pool, case.before), tag + hist + self._shape(obs), nontrivial,
                      sample={'statement': sexp.dumps(g.short(obs.statement))[:300],
                              'pool': [[p, [sexp.dumps(g.short(a))[:120] for a in adv]] for p, adv in obs.pool],
                              'selected': obs.selected, 'parses': obs.parses, 'earlier_requests': obs.earlier})
            for p in obs.parses:
                if p.startswith('other:'):
                    self.extra.setdefault('parser_other_errors', {}).setdefault(p, 0)
                    self.extra['parser_other_errors'][p] += 1
            m = self.parse_answer(ans)
            witness = case_json(case)
            if m is None:
                self.diverge('model rejected the case', witness, None, ans)
                continue
            msel, mcov, mres = m
            if obs.selected != msel:
                self.diverge('Importer.match selection', witness, obs.selected, msel)
            if list(obs.covers) != mcov:
                self.diverge('matcher verdict per feed', witness, list(obs.covers), mcov)
            for i, (p, r) in enumerate(zip(obs.parses, mres)):
                if not p.startswith('other:') and (p == 'ok') != r:
                    self.diverge(f'parser verdict of feed {i}', witness, p, r)
            for what, sig in oracle(obs):
                first.setdefault(sig, (what, case))
            if idx % 3 == 0 and idx not in sql_done:
                # the SQLAlchemy parser shipped with forml goes through the same source resolution
                sql_done.add(idx)
                for sq in observe_all(cases[idx], sql=True, split_builders=False)[-1:]:
                    full = cases[idx]
                    self.case(('sql', sq.statement, sq.pool, full.before), tag + 'alchemy ' + self._shape(sq), nontrivial)
                    for what, sig in oracle(sq):
                        first.setdefault(sig, (what + ' (SQLAlchemy parser)', full))
                    if not full.before:
                        if sq.selected != obs.selected or sq.covers != obs.covers:
                            self.diverge('selection differs between two feed classes with the same sources', witness,
                                         [sq.selected, sq.covers], [obs.selected, obs.covers])
                        for i, (p, r) in enumerate(zip(sq.parses, mres)):
                            if not p.startswith('other:') and (p == 'ok') != r:
                                self.diverge(f'SQLAlchemy parser verdict of feed {i}', witness, p, r)
        # one (minimised) failing input per root-cause signature
        for sig, (what, case) in first.items():
            small = self._shrink(case, sig)
            whats = [w for w, s in self._violations_of(small) if s == sig]
            self.violate(whats[0] if whats else what, case_json(small), sig)

    def correspondence(self) -> None:
        cases = self._cases()
        self._check(cases)
        if not self.quick:
            self._planted()

    def _planted(self) -> None:
        """Self-test of the tie: a deliberately wrong model line (priorities negated) must be noticed."""
        case = Case(_QJ, ((2, (A, B)), (8, (B, A))))
        obs = observe(case)
        wrong = obs._replace(pool=tuple((None if p is None else -p, adv) for p, adv in obs.pool))
        m = self.parse_answer(self.model([self.line(wrong)])[0])
        if m is None or m[0] == obs.selected:
            raise fw.MachineryError('planted divergence (negated priorities) was not noticed by the correspondence')
        self.notes.append('planted-divergence self-test passed (negated priorities are noticed)')

    # ---- failing-input search ----------------------------------------------------------------------
    def _violations_of(self, case: Case) -> list:
        try:
            return oracle(observe(case))
        except Exception:  # pylint: disable=broad-except
            return []

    def _shrink(self, case: Case, sig: str) -> Case:
        """Greedy: shorter request history, smaller statements (one of their sub-sources), fewer feeds, fewer advertised
        sources."""
        def fails(c):
            return any(s == sig for _, s in self._violations_of(c))

        changed = True
        while changed:
            changed = False
            if case.before and fails(case._replace(before=())):
                case, changed = case._replace(before=()), True
                continue
            for i in range(len(case.before)):
                cands = [case._replace(before=case.before[:i] + case.before[i + 1:])]
                cands += [case._replace(before=case.before[:i] + (sub,) + case.before[i + 1:])
                          for sub in list(subsources(case.before[i]))[1:]]
                for cand in cands:
                    if fails(cand):
                        case, changed = cand, True
                        break
                if changed:
                    break
            if changed:
                continue
            for sub in list(subsources(case.statement))[1:]:
                cand = case._replace(statement=sub)
                if fails(cand):
                    case, changed = cand, True
                    break
            if changed:
                continue
            for i in range(len(case.pool)):
                if len(case.pool) > 1:
                    cand = case._replace(pool=case.pool[:i] + case.pool[i + 1:])
                    if fails(cand):
                        case, changed = cand, True
                        break
                prio, adv = case.pool[i]
                for j in range(len(adv)):
                    cand = case._replace(pool=case.pool[:i] + ((prio, adv[:j] + adv[j + 1:]),) + case.pool[i + 1:])
                    if fails(cand):
                        case, changed = cand, True
                        break
                if changed:
                    break
        return case

    def search(self, reason: str) -> None:
        """Widen around the diverging cases: every advertised subset of the statement's sub-sources as a single feed, and
        all orders / priority patterns of the diverging pool; oracle on the real code; shrink what fails."""
        seeds = []
        for d in self.divergences:
            if isinstance(d.case, dict) and 'statement' in d.case:
                c = case_from_json(d.case)
                if c not in seeds:
                    seeds.append(c)
        gen = g.Gen(self.rng, small_ints=True)
        if not seeds:
            seeds = list(CORPUS) + [Case(s, ()) for s in (self._statement(gen) for _ in range(40))]
        tried, found = 0, {}
        for seed in seeds[:25]:
            subs = list(dict.fromkeys(subsources(seed.statement)))[:7]
            cands = []
            for k in range(len(subs) + 1):
                for combo in itertools.combinations(subs, k):
                    cands.append(Case(seed.statement, ((None, combo),)))
            advs = [adv for _, adv in seed.pool] or [tuple(tables_of(seed.statement))]
            for perm in itertools.permutations(advs):
                for prios in itertools.product((None, 2, 6), repeat=len(perm)):
                    cands.append(Case(seed.statement, tuple(zip(prios, perm))))
            for cand in cands[:400]:
                tried += 1
                for what, sig in self._violations_of(cand):
                    if sig not in found:
                        found[sig] = (what, cand)
        for sig, (what, cand) in found.items():
            small = self._shrink(cand, sig)
            whats = [w for w, s in self._violations_of(small) if s == sig]
            self.violate(whats[0] if whats else what, case_json(small), sig)
        self.notes.append(f'failing-input search ({reason}): {tried} cases around {len(seeds[:25])} seeds, '
                          f'{len(found)} violation signature(s)')

    def replay_finding(self, entry):
        if not isinstance(entry.get('witness'), dict) or 'statement' not in entry['witness']:
            return None
        case = case_from_json(entry['witness'])
        found = oracle(observe(case))
        want = entry.get('signature')
        for what, sig in found:
            if sig == want:
                return fw.Violation(what, entry['witness'], sig)
        for what, sig in found:
            return fw.Violation(what, entry['witness'], sig)
        return None


if __name__ == '__main__':
    raise SystemExit(fw.run(C09))
