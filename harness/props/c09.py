"""C09 — feed selection (`io.Importer`) vs the source resolution of the selected feed's parser, against
lean/ForML/Model/Matcher.lean.

A case = (statement, pool of 1..3 feeds).  Every feed is a real `io.Feed` subclass (registered provider, so that lazily
configured `setup.Feed` descriptors with a priority work as well as explicit instances) advertising an arbitrary set
of DSL sources: tables, references, joins, sets, sub-queries of the statement, near misses of those, unrelated ones.

The lazily configured feeds of a pool are hand-made descriptor tuples (route `direct`, as forml's tests do), or - the way
the platform builds a pool - `[FEED.<ref>]` sections of the configuration (own `priority` option absent / 0 / negative / whole
/ float / ties, generic options, a `params = {...}` sub-table with arbitrary option names incl. `priority`, `provider`,
`params`, malformed sections) resolved by `setup.Feed(ref)` each (route `single`; or handed over as the bare reference string)
or all at once by `setup.Feed.resolve([refs])` (route `multi`), mixed with explicit instances.

implementation  `io.Importer(*feeds).match(statement)`; per feed the single-feed importer (does its matcher accept?) and
                the feed's own parser on the statement (`Feed.Reader.parser(sources, features)` + `accept` + `fetch`):
                `ok` (+ the source skeleton of what the tuple parser built) / `UnprovisionedError` / any other exception;
                per section the resolved descriptor and the keyword arguments the feed constructor received
model           `(c09 statement pool)` -> selected index, covers per feed, skeleton verdict per feed, the parser machine's
                result per feed;  `(c09conf statement members route)` -> selection from the pool built from the configuration,
                descriptor per section;  `(c09seq statements pool)` -> answers of one importer to a request history
                (three columns: unbounded memo, LRU table of 128 entries as in the code, LRU table of 1 entry)
oracle          the property text on ASTs (independent of the model): coverage = every table read is advertised or lies
                under an advertised sub-statement; the returned feed covers and no covering feed has a higher priority;
                MissingError iff nobody covers; the selected feed's parser does not report an unprovisioned source; a
                feed that does not cover does not parse.  "Priority" is the CONFIGURED priority (the section's own option),
                never what forml made of it.
"""
from __future__ import annotations

import itertools
import typing

from core import framework as fw
from core import sexp

from . import dslgen as g

NONTABLE = ('ref', 'join', 'set', 'query')
ALIAS = 'verif-c09-double'
ALIAS_SQL = 'verif-c09-double-sql'
#: provider references of the feed doubles (several, so that `setup.Feed.resolve` has references to order equal priorities by)
ALIASES = (ALIAS, 'verif-c09-alt', 'verif-c09-zed')
ALIASES_SQL = tuple(a + '-sql' for a in ALIASES)  # the same relative order
RESERVED = ('priority', 'provider', 'params')

#: what the feed doubles advertise: feed key -> {dsl source object: parser-native stand-in}
_ADVERTISED: dict = {}
_ORDER: dict = {}
#: every call of a feed double's constructor (its `key`), in order - also the ones that go on to raise
_CTOR_LOG: list = []
NOWHERE = 'verif-c09-nowhere'  # a provider reference nobody registered
REFUSALS = ('RuntimeError', 'ConnectionRefusedError', 'ValueError', 'MissingError')  # what a constructor may raise
#: storage-native handles a content resolver may map a source to: `parser.Source` is an unconstrained TypeVar
FALSY = (None, 0, '', (), False, 0.0, frozenset())
_CACHE: dict = {}


# ---- AST helpers (spec side; no forml involved) --------------------------------------------------------------------
def children(node) -> tuple:
    """Sources a source node reads directly."""
    tag = node[0]
    if tag == 'table':
        return ()
    if tag in ('ref', 'query'):
        return (node[1],)
    return (node[1], node[2])


def subsources(node):
    """All nodes of the source skeleton (pre-order); sources that only occur inside features are not read through."""
    yield node
    for c in children(node):
        yield from subsources(c)


def tables_of(node) -> list:
    return [n for n in subsources(node) if n[0] == 'table']


def spec_covers(advertised: frozenset, node) -> bool:
    """Property text: the advertised sources cover everything the statement reads, directly or through an advertised
    sub-statement."""
    if node in advertised:
        return True
    if node[0] == 'table':
        return False
    return all(spec_covers(advertised, c) for c in children(node))


def hidden_tables(advertised: frozenset, node, above=None):
    """[(table, kind of the outermost advertised sub-statement above it)] for the unadvertised tables the statement
    reads through an advertised sub-statement."""
    if above is None and node in advertised and node[0] != 'table':
        above = node[0]
    if node[0] == 'table':
        if node not in advertised and above is not None:
            yield node, above
        return
    for c in children(node):
        yield from hidden_tables(advertised, c, above)


def retable(ast, old, new):
    """`ast` with every occurrence of the node `old` replaced by `new` (a table also where columns refer to it)"""
    if ast == old:
        return new
    if isinstance(ast, tuple):
        return tuple(retable(x, old, new) for x in ast)
    return ast


def schema_twin(table, variant: int = 0):
    """another catalog version of the table: the same NAME (it prints the same), another schema"""
    _, name, fields = table
    if variant % 2 and len(fields) > 1:
        return ('table', name, fields[:-1])
    return ('table', name, fields + (('segment', 'string'),))


M61 = 2 ** 61 - 1


def colliding(v: int) -> int:
    """another integer with the same `hash()`"""
    if v == -1:
        return -2
    if v == -2:
        return -1
    return v + M61 if v >= 0 else v - M61


def int_literals(ast):
    if isinstance(ast, tuple):
        if len(ast) == 2 and ast[0] == 'lit' and isinstance(ast[1], tuple) and ast[1][0] == 'int':
            yield ast
        else:
            for x in ast:
                yield from int_literals(x)


def tuplify(x):
    if isinstance(x, list):
        return tuple(tuplify(i) for i in x)
    return x


def listify(x):
    if isinstance(x, tuple):
        return [listify(i) for i in x]
    return x


# ---- the real feeds ------------------------------------------------------------------------------------------------
def _doubles():
    """(feed class with the tuple parser, feed class with the SQLAlchemy parser, descriptor class); created once per
    process (providers register themselves by reference)."""
    if 'cls' in _CACHE:
        return _CACHE['cls']
    from forml import io, setup
    from forml.io import dsl
    from forml.io.dsl import parser as parsmod
    from forml.provider.feed.reader import alchemy

    class TupleParser(parsmod.Visitor):
        """Minimal concrete parser: every `generate_*` wraps its arguments into a tuple; the source resolution
        (`resolve_source`, `bypass`, `visit_*`) is the inherited code under test.  Elements fall back to their name
        like in the SQLAlchemy parser (no feature mapping is provided)."""

        def resolve_feature(self, feature):
            try:
                return super().resolve_feature(feature)
            except dsl.UnprovisionedError:
                if isinstance(feature, dsl.Element):
                    return ('col', feature.name)
                raise

        def generate_element(self, origin, element):
            return ('elem', origin, element)

        def generate_literal(self, value, kind):
            return ('lit', value)

        def generate_expression(self, expression, arguments):
            return ('expr', expression.__name__) + tuple(arguments)

        def generate_alias(self, feature, alias):
            return ('alias', feature, alias)

        def generate_join(self, left, right, condition, kind):
            return ('join', left, right, condition, kind.value)

        def generate_set(self, left, right, kind):
            return ('set', left, right, kind.value)

        def generate_query(self, source, features, where, groupby, having, orderby, rows):
            return ('query', source, tuple(features), where, tuple(groupby), having, tuple(orderby), rows)

        def generate_reference(self, instance, name):
            return ('ref', instance, name), ('handle', name)

    class Double(io.Feed, alias=ALIAS):
        """Feed advertising `_ADVERTISED[key]`."""

        class Reader(io.Feed.Reader):
            @classmethod
            def parser(cls, sources, features):
                return TupleParser(sources, features)

            @classmethod
            def read(cls, statement, **kwargs):
                raise NotImplementedError

        def __init__(self, key: int, explode=None, **options):
            _CTOR_LOG.append(key)
            if explode is not None:  # a backend refusing the connection, a bad parameter, ...
                raise _refusal(explode)('the backend refused')
            super().__init__()
            self.key = key
            self.options = options  # whatever else the configuration section hands to the constructor

        @property
        def sources(self):
            return _ADVERTISED[self.key]

    for extra in ALIASES[1:]:
        type('Double_' + extra.replace('-', '_'), (Double,), {}, alias=extra)

    class DoubleSql(io.Feed, alias=ALIAS_SQL):
        """The same with the SQLAlchemy reader shipped with forml."""

        Reader = alchemy.Reader

        def __init__(self, key: int, explode=None, **options):
            _CTOR_LOG.append(key)
            if explode is not None:
                raise _refusal(explode)('the backend refused')
            super().__init__()
            self.key = key
            self.options = options

        @property
        def sources(self):
            return _ADVERTISED[self.key]

    for extra in ALIASES_SQL[1:]:
        type('DoubleSql_' + extra.replace('-', '_'), (DoubleSql,), {}, alias=extra)

    class Direct(setup.Feed):
        """A `[FEED.x]` descriptor without a config file (as tests/io/_input/test_input.py does)."""

        def __new__(cls, reference: str, priority: float, params: dict):
            return tuple.__new__(cls, [reference, float(priority), dict(params)])

    _CACHE['cls'] = (Double, DoubleSql, Direct)
    return _CACHE['cls']


def _refusal(name: str):
    import forml

    return {'RuntimeError': RuntimeError, 'ConnectionRefusedError': ConnectionRefusedError, 'ValueError': ValueError,
            'MissingError': forml.MissingError}[name]


def _native(i: int, ast, sql: bool, falsy: bool = False):
    if not sql:
        return FALSY[i % len(FALSY)] if falsy else ('native', i)
    import sqlalchemy

    return sqlalchemy.table(ast[1].lower() if ast[0] == 'table' else f'denorm{i}')


class Conf(typing.NamedTuple):
    """How the `[FEED.<ref>]` section of a lazily configured member is written (routes `single` / `multi`).  The
    configured priority itself is the member's `priority2`."""

    form: str = 'int'  # the section's own `priority` option: 'absent' (only for 0) | 'int' (only for whole numbers) | 'float'
    top: tuple = ()  # ((name, value), ...) generic options at the section's top level
    params: typing.Optional[tuple] = None  # ((name, value), ...) the `params = {...}` sub-table; None = no sub-table
    keyat: str = 'top'  # where the double's constructor argument `key` is given: 'top' | 'params' | 'both' (a decoy on top)
    provider: int = 0  # index into ALIASES
    named: bool = False  # no `provider` option: the section is named after the provider
    broken: typing.Optional[str] = None  # malformed stream: 'priority-text' | 'priority-table' | 'params-num' | 'params-text' | 'missing'
    given: str = 'descriptor'  # what io.Importer is handed: the resolved `setup.Feed` | 'reference' = the section's name (a str)
    fault: typing.Optional[str] = None  # the lazily configured feed cannot be brought up: 'unknown-provider' | 'missing-key' |
    #                                     'ctor:<exception class>' (routes direct / single)
    natives: str = 'tuple'  # what the feed's `sources` map to: distinct tuples | 'falsy' (None, 0, '', (), ...); any member


PLAIN = Conf()


class Case(typing.NamedTuple):
    statement: tuple  # AST
    pool: tuple  # ((priority | None, (advertised AST, ...)[, Conf]), ...)   None = explicit instance; priority in halves
    before: tuple = ()  # statements the SAME importer instance was asked before (request history)
    route: str = 'direct'  # how the lazily configured members become descriptors: 'direct' (tuples built by hand, as forml's
    #                        tests do) | 'single' (`setup.Feed(ref)` per [FEED.ref] section) | 'multi' (`setup.Feed.resolve([refs])`)


def member(m) -> tuple:
    """(priority2 | None, advertised, Conf)"""
    return m[0], m[1], (m[2] if len(m) > 2 and m[2] is not None else PLAIN)


def conf_json(conf: Conf) -> dict:
    out = {'priority_written_as': conf.form, 'options': [list(kv) for kv in conf.top],
           'params': None if conf.params is None else [list(kv) for kv in conf.params], 'key_given_in': conf.keyat,
           'provider': ALIASES[conf.provider], 'section_named_after_provider': conf.named}
    if conf.broken:
        out['malformed'] = conf.broken
    if conf.given != 'descriptor':
        out['handed_to_importer_as'] = 'reference string'
    return out


def conf_from_json(w: dict) -> Conf:
    return Conf(w['priority_written_as'], tuple(tuple(kv) for kv in w['options']),
                None if w['params'] is None else tuple(tuple(kv) for kv in w['params']), w['key_given_in'],
                ALIASES.index(w['provider']), w['section_named_after_provider'], w.get('malformed'),
                'reference' if w.get('handed_to_importer_as') == 'reference string' else 'descriptor')


def case_json(case: Case) -> dict:
    pool = []
    for m in case.pool:
        p, adv, conf = member(m)
        feed = {'priority2': p, 'advertised': [listify(a) for a in adv]}
        if case.route != 'direct' and p is not None:
            feed['section'] = conf_json(conf)
        if conf.fault and p is not None:
            feed['cannot_be_brought_up'] = conf.fault
        if conf.natives != 'tuple':
            feed['sources_map_to'] = 'falsy handles (None, 0, \'\', (), False, 0.0, frozenset())'
        pool.append(feed)
    out = {'statement': listify(case.statement), 'pool': pool}
    if case.route != 'direct':
        out['descriptors_resolved_by'] = {'single': 'setup.Feed(ref)', 'multi': 'setup.Feed.resolve([refs])'}[case.route]
    if case.before:
        out['asked_before_on_the_same_importer'] = [listify(b) for b in case.before]
    return out


def case_from_json(w: dict) -> Case:
    route = {None: 'direct', 'setup.Feed(ref)': 'single', 'setup.Feed.resolve([refs])': 'multi'}[w.get('descriptors_resolved_by')]
    pool = []
    for f in w['pool']:
        m = (f['priority2'], tuple(tuplify(a) for a in f['advertised']))
        conf = conf_from_json(f['section']) if 'section' in f else PLAIN
        conf = conf._replace(fault=f.get('cannot_be_brought_up'), natives='falsy' if 'sources_map_to' in f else 'tuple')
        if conf != PLAIN:
            m += (conf,)
        pool.append(m)
    return Case(tuplify(w['statement']), tuple(pool), tuple(tuplify(b) for b in w.get('asked_before_on_the_same_importer', ())),
                route)


def priority_value(conf: Conf, prio2: int):
    """the number written as the section's own `priority` option"""
    return prio2 / 2 if conf.form == 'float' or prio2 % 2 else prio2 // 2


def build_section(conf: Conf, prio2: int, key: int, decoy: int, aliases: tuple, taken: set):
    """(reference, the `[FEED.<reference>]` section as the TOML parser would deliver it | None = there is no such section)"""
    ref = f'c09-{key}'
    sec: dict = {}
    if conf.fault == 'unknown-provider':
        sec['provider'] = NOWHERE
    elif conf.named and aliases[conf.provider] not in taken:
        ref = aliases[conf.provider]
    else:
        sec['provider'] = aliases[conf.provider]
    taken.add(ref)
    if conf.broken == 'missing':
        return ref, None
    if conf.broken == 'priority-text':
        sec['priority'] = 'high'
    elif conf.broken == 'priority-table':
        sec['priority'] = {'level': priority_value(conf, prio2)}
    elif not (conf.form == 'absent' and prio2 == 0):
        sec['priority'] = priority_value(conf, prio2)
    sec.update(conf.top)
    params = None if conf.params is None else dict(conf.params)
    if conf.fault and conf.fault.startswith('ctor:'):
        sec['explode'] = conf.fault[5:]
    if conf.fault == 'missing-key':
        pass
    elif params is None or conf.keyat == 'top':
        sec['key'] = key
    else:
        params['key'] = key
        if conf.keyat == 'both':
            sec['key'] = decoy
    if conf.broken == 'params-num':
        sec['params'] = 5
    elif conf.broken == 'params-text':
        sec['params'] = 'xy'
    elif params is not None:
        sec['params'] = params
    return ref, sec


def expected_kwargs(sec: dict) -> dict:
    """The documentation of `setup.Section`: generic options are the section's options the config parser does not know,
    `params = {...}` is the collision-free way of giving them (so it wins, and may use any name)."""
    out = {k: v for k, v in sec.items() if k not in RESERVED}
    out.update(sec.get('params', {}))
    return out


def halves(x):
    """a parsed priority in halves (int) - or the float itself when it is not a multiple of 0.5"""
    try:
        return int(x * 2) if float(x * 2).is_integer() else ('float', repr(x))
    except (TypeError, ValueError, OverflowError):
        return ('not-a-number', repr(x))


class Observed(typing.NamedTuple):
    statement: tuple  # AST read back from the real statement
    pool: tuple  # ((priority2 | None, frozenset of ASTs read back from the real advertised sources), ...)
    selected: typing.Any  # index | None (MissingError) | ('error', class) | ('pool-error', class)
    stable: bool  # a second match() returned the same feed
    identity: bool  # an explicit instance is returned as that very object
    covers: tuple  # per feed: True / False / ('error', class)   (single-feed importer)
    parses: tuple  # per feed: 'ok' | 'unprovisioned' | 'other:<class>'
    earlier: int = 0  # number of requests the importer instance had answered before this one
    sections: tuple = ()  # per feed: None (instance / direct descriptor) | (reference, section dict | None)
    descriptors: tuple = ()  # per feed: None | (provider reference, priority in halves, params dict) | ('error', class)
    kwargs: tuple = ()  # per feed: None | what the feed constructor received | ('error', class)
    wellformed: bool = True  # every section is there, its priority is a number, its params a table
    skeletons: tuple = ()  # per feed: the source skeleton of what the tuple parser built (None: no result / SQLAlchemy parser)
    byname: tuple = ()  # per feed: io.Importer was handed the section's reference string
    faults: tuple = ()  # per feed: None | how the lazily configured feed fails to come up
    falsy: tuple = ()  # per feed: its sources map to falsy handles
    touched: tuple = ()  # keys' indices of the feed doubles the importer constructed while answering THIS request, in order


def observe(case: Case, sql: bool = False, split_builders: bool = False) -> Observed:
    """The real code's answer to `case.statement` (after `case.before` on the same importer instance)."""
    return observe_all(case, sql, split_builders)[-1]


def observe_all(case: Case, sql: bool = False, split_builders: bool = False) -> list:
    """Run the real code on one case: ONE `io.Importer` instance answers `case.before + (case.statement,)` in that
    order; one `Observed` per request.  Routes `single` / `multi`: the lazily configured feeds are `[FEED.<ref>]`
    sections of the platform configuration (provider, priority, generic options, a `params` sub-table) resolved by
    `setup.Feed(<ref>)` each, or all at once by `setup.Feed.resolve([<ref>, ...])` and handed to the importer behind the
    explicit instances; route `direct`: the descriptor tuples are built by hand."""
    import forml
    from forml import io, setup
    from forml.io import dsl
    from forml.setup import _conf

    Double, DoubleSql, Direct = _doubles()
    cls, aliases = (DoubleSql, ALIASES_SQL) if sql else (Double, ALIASES)
    b1 = g.Builder()
    b2 = g.Builder() if split_builders else b1
    base = _CACHE['key'] = _CACHE.get('key', 0) + 16
    pool = [member(m) for m in case.pool]
    keys = [base + i for i in range(len(pool))]
    saved = _conf.CONFIG.get(setup.Feed.GROUP)
    try:
        explicit, readback = {}, []
        sections: list = [None] * len(pool)
        descriptors: list = [None] * len(pool)
        byname = tuple(case.route == 'single' and prio is not None and conf.given == 'reference' for prio, _, conf in pool)
        wellformed = True
        faults = tuple(conf.fault if prio is not None and case.route != 'multi' else None for prio, _, conf in pool)
        for i, (prio, adv, conf) in enumerate(pool):
            mapping = {}
            for j, a in enumerate(adv):
                mapping[b2.build(a)] = _native(j, a, sql, conf.natives == 'falsy')
            _ADVERTISED[keys[i]] = mapping
            _ORDER[keys[i]] = [g.to_ast(o) for o in mapping]  # read back from the real objects, in mapping order
            readback.append((prio, frozenset(_ORDER[keys[i]])))
            if prio is None:
                explicit[i] = cls(key=keys[i])
        pool_error = None
        if case.route == 'direct':
            slots = []
            for i, (prio, _, _) in enumerate(pool):
                params = {} if faults[i] == 'missing-key' else {'key': keys[i]}
                if faults[i] and faults[i].startswith('ctor:'):
                    params['explode'] = faults[i][5:]
                slots.append(explicit[i] if prio is None else
                             Direct(NOWHERE if faults[i] == 'unknown-provider' else aliases[0], prio / 2, params))
        else:
            group, taken = dict(saved or {}), set()
            for i, (prio, _, conf) in enumerate(pool):
                if prio is not None:
                    decoy = keys[(i + 1) % len(keys)] if len(keys) > 1 else keys[i] + 7
                    sections[i] = build_section(conf._replace(fault=faults[i]), prio, keys[i], decoy, aliases, taken)
                    wellformed = wellformed and conf.broken is None
                    if sections[i][1] is not None:
                        group[sections[i][0]] = sections[i][1]
            dict.__setitem__(_conf.CONFIG, setup.Feed.GROUP, group)
            for i, sec in enumerate(sections):
                if sec is not None:
                    try:
                        d = setup.Feed(sec[0])
                        descriptors[i] = (str(d.reference), halves(d.priority), dict(d.params))
                    except Exception as err:  # pylint: disable=broad-except
                        descriptors[i] = ('error', type(err).__name__)
            try:
                if case.route == 'single':
                    slots = [explicit[i] if sec is None else sec[0] if byname[i] else setup.Feed(sec[0])
                             for i, sec in enumerate(sections)]
                else:
                    refs = [sec[0] for sec in sections if sec is not None]  # (no reference at all would mean "the default feeds")
                    resolved = setup.Feed.resolve(refs) if refs else ()
                    slots = [explicit[i] for i in sorted(explicit)] + list(resolved)
            except Exception as err:  # pylint: disable=broad-except
                pool_error, slots = type(err).__name__, None
        out = []
        extra = {'sections': tuple(sections), 'descriptors': tuple(descriptors), 'wellformed': wellformed, 'byname': byname,
                 'faults': faults, 'falsy': tuple(conf.natives == 'falsy' and not sql for _, _, conf in pool)}
        importer = None
        if slots is not None:
            try:
                importer = io.Importer(*slots)  # a reference string is resolved in here (`Slot.__init__`)
            except Exception as err:  # pylint: disable=broad-except
                pool_error = type(err).__name__
        if importer is None:
            for earlier, ast in enumerate(case.before + (case.statement,)):
                out.append(Observed(g.to_ast(b1.build(ast)), tuple(readback), ('pool-error', pool_error), True, True,
                                    (), (), earlier, kwargs=(None,) * len(pool), **extra))
            return out
        for earlier, ast in enumerate(case.before + (case.statement,)):
            stmt = b1.build(ast)  # rebuilt for every request: a repeated statement is an equal, not the identical object
            out.append(_request(importer, stmt, keys, explicit, cls, tuple(readback), earlier))
        kwargs: list = [None] * len(pool)
        if case.route != 'direct':
            try:
                for feed in importer:  # `Slot.instance`: every lazily configured feed is constructed from its descriptor
                    i = keys.index(feed.key)
                    if sections[i] is not None:
                        kwargs[i] = {'key': feed.key, **feed.options}
            except Exception as err:  # pylint: disable=broad-except
                kwargs = [None if sec is None else (k if k is not None else ('error', type(err).__name__))
                          for sec, k in zip(sections, kwargs)]
        return [o._replace(kwargs=tuple(kwargs), **extra) for o in out]
    finally:
        if saved is None:
            dict.pop(_conf.CONFIG, setup.Feed.GROUP, None)
        else:
            dict.__setitem__(_conf.CONFIG, setup.Feed.GROUP, saved)
        for k in keys:
            _ADVERTISED.pop(k, None)
            _ORDER.pop(k, None)


def skeleton(symbol, natives: list):
    """Source skeleton of the tuple parser's output: which advertised source every leaf was resolved to, references,
    joins, sets, queries (nothing of the features)."""
    tag = symbol[0]
    if tag == 'native':
        return ('native', natives[symbol[1]])
    if tag == 'ref':
        return ('ref', skeleton(symbol[1], natives), symbol[2])
    if tag == 'join':
        return ('join', skeleton(symbol[1], natives), skeleton(symbol[2], natives), symbol[4])
    if tag == 'set':
        return ('set', skeleton(symbol[1], natives), skeleton(symbol[2], natives), symbol[3])
    if tag == 'query':
        return ('query', skeleton(symbol[1], natives))
    raise ValueError(f'not a source symbol: {symbol!r}')


def _request(importer, stmt, keys, explicit, cls, readback, earlier) -> Observed:
    """one `importer.match(stmt)` on the shared instance + the per-feed verdicts of fresh single-feed importers / parsers"""
    import forml
    from forml import io
    from forml.io import dsl

    stable = identity = True
    mark = len(_CTOR_LOG)
    try:
        feed = importer.match(stmt)
        selected = keys.index(feed.key)
        stable = importer.match(stmt) is feed
        if selected in explicit:
            identity = feed is explicit[selected]
    except forml.MissingError as err:
        selected = None if type(err) is forml.MissingError else ('error', type(err).__name__)
    except Exception as err:  # pylint: disable=broad-except
        selected = ('error', type(err).__name__)
    touched = tuple(keys.index(k) for k in _CTOR_LOG[mark:] if k in keys)
    del _CTOR_LOG[:]
    covers, parses, skeletons = [], [], []
    for i in range(len(keys)):
        feed = cls(key=keys[i])
        skeletons.append(None)
        try:
            covers.append(io.Importer(feed).match(stmt) is feed)
        except forml.MissingError as err:
            covers.append(False if type(err) is forml.MissingError else ('error', type(err).__name__))
        except Exception as err:  # pylint: disable=broad-except
            covers.append(('error', type(err).__name__))
        try:
            with feed.Reader.parser(feed.sources, feed.features) as visitor:
                stmt.accept(visitor)
                result = visitor.fetch()
            parses.append('ok')
            if isinstance(result, tuple) and not any(not v for v in feed.sources.values()):  # the tuple parser, telling handles
                skeletons[i] = skeleton(result, _ORDER[keys[i]])
        except dsl.UnprovisionedError:
            parses.append('unprovisioned')
        except Exception as err:  # pylint: disable=broad-except
            parses.append(f'other:{type(err).__name__}')
    return Observed(g.to_ast(stmt), readback, selected, stable, identity, tuple(covers), tuple(parses), earlier,
                    skeletons=tuple(skeletons), touched=touched)


def oracle(obs: Observed) -> list:
    """The property text evaluated on what the real code did.  Returns [(what, signature)]."""
    out = []
    s = obs.statement
    n = len(obs.pool)
    cov = [spec_covers(adv, s) for _, adv in obs.pool]
    rank = [float('inf') if p is None else p for p, _ in obs.pool]
    faults = obs.faults or (None,) * n
    # a feed that cannot be brought up cannot be returned; a fault at or above the best covering feed (ties: the text is
    # silent) may surface - what exactly then happens is pinned by the correspondence, not by the property
    cand = [cov[i] and faults[i] is None for i in range(n)]
    best = max((rank[i] for i in range(n) if cand[i]), default=None)
    shadowed = best is not None and any(faults[i] is not None and rank[i] >= best for i in range(n))
    sel = obs.selected
    if isinstance(sel, tuple) and sel[0] == 'pool-error':
        # no importer: the property has nothing to say unless the configuration is well formed
        if obs.wellformed:
            return [(f'the pool cannot be built from a well-formed configuration: {sel[1]}', 'pool-construction-raises-' + sel[1])]
        return []
    if isinstance(sel, tuple) and sel[1] == 'AttributeError' and any(obs.byname):
        i = obs.byname.index(True)
        out.append((f'Importer.match raised AttributeError: feed {i} of {n} was given to io.Importer by its reference string, '
                    'which is not resolved to the configured descriptor', 'pool-member-given-by-reference-string-not-resolved'))
    elif isinstance(sel, tuple) and any(faults):
        if best is not None and not shadowed:
            i = next(i for i in range(n) if cand[i] and rank[i] == best)
            j = next(j for j in range(n) if faults[j] is not None)
            out.append((f'Importer.match raised {sel[1]} although feed {i} of {n} (priority {rank[i] / 2}) covers the statement and '
                        f'every feed that cannot be brought up (feed {j}: {faults[j]}, priority {rank[j] / 2}) has a lower priority',
                        'fault-below-the-covering-feed-breaks-match'))
    elif isinstance(sel, tuple):
        out.append((f'Importer.match raised {sel[1]}', 'match-raises-' + sel[1]))
    elif sel is None:
        if best is not None and not shadowed:
            i = cand.index(True)
            out.append((f'MissingError although feed {i} of {n} covers everything the statement reads',
                        'missing-error-though-a-feed-covers'))
    else:
        if not cov[sel]:
            out.append((f'feed {sel} of {n} was selected although it lacks a source the statement reads',
                        'selected-feed-does-not-cover'))
        better = [i for i in range(n) if cand[i] and rank[i] > rank[sel]]
        if better:
            out.append((f'feed {sel} (priority {rank[sel] / 2}) was selected although feed {better[0]} (priority '
                        f'{rank[better[0]] / 2}) covers the statement too', 'selected-not-highest-priority'))
        if not obs.stable:
            out.append(('a second match() of the same statement returned another feed', 'match-not-stable'))
        if not obs.identity:
            out.append(('the explicit feed instance was not returned as such', 'explicit-instance-replaced'))
        if cov[sel] and obs.parses[sel] == 'unprovisioned':
            adv = obs.pool[sel][1]
            kinds = {k for _, k in hidden_tables(adv, s)}
            if not kinds:
                out.append((f'the parser of the selected feed {sel} reports an unprovisioned source although every '
                            'table the statement reads is advertised', 'selected-parser-unprovisioned-all-tables-advertised'))
            if kinds & {'join', 'set', 'query'}:
                k = sorted(kinds & {'join', 'set', 'query'})[0]
                out.append((f'the parser of the selected feed {sel} reports an unprovisioned source below the {k} the '
                            'feed advertises', 'selected-parser-unprovisioned-under-advertised-statement'))
            if 'ref' in kinds:
                out.append((f'the parser of the selected feed {sel} reports an unprovisioned source below the reference '
                            'the feed advertises', 'selected-parser-unprovisioned-under-advertised-reference'))
    if obs.earlier:
        out = [(f'{what} (request {obs.earlier + 1} on the same importer instance)', sig) for what, sig in out]
    for i in range(n):
        if not cov[i] and obs.parses[i] == 'ok':
            out.append((f'feed {i} lacks a source the statement reads, yet its parser resolves the statement',
                        'passed-over-feed-parses'))
    return out


# ---- generation ----------------------------------------------------------------------------------------------------
SAFE_MUTATIONS = ('alias', 'operator', 'cast-kind', 'column', 'direction', 'reference-name', 'join-kind', 'set-kind', 'rows',
                  'table')  # 'literal' is left out: hash-colliding literals compare equal in forml (C08's subject)

A, B, C = g.STUDENT, g.SCHOOL, g.CAMPUS
_JAB = ('join', A, B, 'cross', None)
_RA = ('ref', A, 'r')
_ON = ('expr', 'eq', ('elem', A, 'school'), ('elem', B, 'id'))
_JON = ('join', A, B, 'inner', _ON)
_QJ = ('query', _JON, (('elem', A, 'name'), ('alias', ('elem', B, 'name'), 'sname')), None, (), None, (), None)
_QRA = ('query', _RA, (('elem', _RA, 'name'),), None, (), None, (), None)
_QA = ('query', A, (('elem', A, 'name'),), None, (), None, (), None)
_QA2 = ('query', A, (('elem', A, 'name'),), ('expr', 'gt', ('elem', A, 'level'), ('lit', ('int', 1))), (), None, (), None)
_SET = ('set', _QA, _QA2, 'union')
_QQ = ('query', ('ref', _QA, 's'), (('elem', ('ref', _QA, 's'), 'name'),), None, (), None, (), None)

CORPUS = [
    Case(_JAB, ((None, (_JAB,)),)),  # C09-F1 witness
    Case(_RA, ((None, (_RA,)),)),  # C09-F2 witness
    Case(_QJ, ((None, (_JON,)),)),  # DESIGN D10 as observed by hand
    Case(_QJ, ((None, (_JON, A, B)),)),
    Case(_QJ, ((2, (A,)), (2, (A, B)), (2, (B, A)))),  # ties: construction order
    Case(_QJ, ((2, (A, B)), (8, (B, A)), (None, (A,)))),  # explicit instance first but not covering
    Case(_QJ, ((2, (A, B)), (None, (A, B)), (40, (A, B)))),
    Case(_QJ, ((2, (A, C)), (3, (B,)))),  # nobody covers: twin table does not count
    Case(_QRA, ((0, (_RA,)), (0, (A,)))),
    Case(_QRA, ((-3, (A,)), (-4, (_QRA,)))),
    Case(_SET, ((1, (_SET,)), (1, (A,)))),
    Case(_SET, ((1, (_QA,)), (1, (_QA, _QA2)), (0, (A,)))),
    Case(_QQ, ((1, (_QA,)), (1, (('ref', _QA, 's'),)), (1, (A,)))),
    Case(_QQ, ((1, (('ref', _QA, 'other'),)),)),
    Case(A, ((1, ()), (1, (A,)))),
    Case(('join', A, ('ref', A, 'r'), 'inner', ('expr', 'eq', ('elem', A, 'id'), ('elem', ('ref', A, 'r'), 'id'))),
         ((1, (('ref', A, 'r'),)), (1, (A,)))),
]


_AB = (A, B)
CORPUS += [
    # the platform's way: [FEED.x] sections; an option called `priority` inside `params` is the feed's own business
    Case(_QJ, ((2, _AB, Conf('int', (), (('priority', 100),), 'params')), (20, _AB, Conf('int', (), (('region', 'eu'),), 'top'))), (), 'single'),
    Case(_QJ, ((0, _AB, Conf('absent', (), (('priority', 100),), 'both')), (20, _AB, PLAIN)), (), 'single'),
    Case(_QJ, ((20, _AB, Conf('float', (('region', 'eu'),), (('priority', -100), ('region', 'us')), 'top')), (2, _AB, PLAIN)), (), 'multi'),
    Case(_QJ, ((5, _AB, Conf('float', (), (('provider', 'elsewhere'), ('params', 3)), 'params', 1)), (None, (A,)), (5, _AB, Conf('float', (), None, 'top', 0))), (), 'multi'),
    Case(_QJ, ((-3, _AB, Conf('float')), (0, _AB, Conf('absent')), (-4, _AB, Conf('int'))), (), 'single'),
    Case(_QJ, ((4, _AB, Conf('int', named=True)), (4, _AB, Conf('float', provider=2)), (4, _AB, Conf('int', provider=1))), (), 'multi'),
    Case(_QA, ((2, (A,), Conf(broken='priority-text')), (2, (A,))), (), 'single'),
    Case(_QA, ((2, (A,)), (2, (A,), Conf(broken='missing'))), (), 'multi'),
    Case(_QA, ((2, (A,), Conf(broken='params-num')), (2, (A,), Conf(broken='priority-table'))), (), 'single'),
    Case(_QA, ((2, (A,), Conf(broken='params-text')),), (), 'single'),
    # a member given by its reference string
    Case(_QA, ((2, (A,), Conf(given='reference')),), (), 'single'),
    Case(_QA, ((None, (A,)), (2, (A,), Conf(given='reference'))), (), 'single'),
    Case(_QA, ((8, (A,)), (2, (), Conf(given='reference')), (None, (B,))), (), 'single'),
    Case(_QA, ((8, (A,)), (2, (A,), Conf(given='reference', broken='missing'))), (), 'single'),
]

_QB = ('query', B, (('elem', B, 'name'),), None, (), None, (), None)
CORPUS += [
    # a lazily configured feed that cannot be brought up: below the covering feed it must not exist, above it it surfaces
    Case(_QA, ((9, (A,)), (1, (A,), Conf(fault='ctor:ConnectionRefusedError')))),
    Case(_QA, ((9, (A,)), (1, (A,), Conf(fault='unknown-provider')), (None, (B,))), (), 'single'),
    Case(_QA, ((1, (A,)), (9, (A,), Conf(fault='ctor:RuntimeError')))),
    Case(_QA, ((9, (B,)), (1, (A,), Conf(fault='missing-key')))),
    Case(_QA, ((4, (A,), Conf(fault='ctor:MissingError')), (4, (A,)), (4, (B,), Conf(fault='ctor:ValueError'))), (), 'single'),
    Case(_QA, ((None, (B,)), (3, (B,)), (2, (A,)), ), (), 'single'),
    # sources mapped to falsy handles (None, 0, '', ...): advertised all the same
    Case(_QJ, ((None, _AB, Conf(natives='falsy')),)),
    Case(_QJ, ((2, (_JON, A, B), Conf(natives='falsy')), (1, _AB))),
    Case(_QRA, ((None, (_RA, A), Conf(natives='falsy')), (5, (A,), Conf(natives='falsy'))), (), 'single'),
]
_QSET = ('query', ('set', _QA, _QB, 'union'), (('elem', A, 'name'),), None, (), None, (), None)
_QQA = ('query', _QA, (('elem', A, 'name'),), None, (), None, (), None)
_RQB = ('ref', _QB, 'q')
CORPUS += [
    # statements the DSL accepts whose columns are out of the parser's scope (a nested query / a set has a context of its
    # own): `KeyError` from the origins registry - unless a table is missing, which is reported first
    Case(_QSET, ((None, (A, B)), (2, (A,)), (2, (B,)))),
    Case(_QQA, ((None, (A,)), (2, (_QA,))), (), 'single'),
    Case(('query', ('set', _QA, _QB, 'union'), (), None, (), None, (), None), ((3, (A, B, ('set', _QA, _QB, 'union'))), (3, (_QA, _QB)))),
    # ... and in scope through a reference; overrides at every level
    Case(('query', ('join', A, _RQB, 'cross', None), (('elem', A, 'name'), ('elem', _RQB, 'name')), None, (), None, (), None),
         ((None, (A, B)), (1, (A, _RQB)), (1, (A, B, _QB, ('join', A, _RQB, 'cross', None))), (1, (A, _QB)))),
    Case(('query', ('ref', ('set', _QA, _QB, 'union'), 'u'), (('elem', ('ref', ('set', _QA, _QB, 'union'), 'u'), 'name'),), None, (), None, (), None),
         ((None, (A, B, _QA)), (None, (A, B, ('set', _QA, _QB, 'union'))))),
]
A2 = schema_twin(A)  # another catalog version of Student: same name, one more column
_QA_2 = retable(_QA, A, A2)
_QAL = ('query', A, (('elem', A, 'name'),), ('expr', 'gt', ('elem', A, 'level'), ('lit', ('int', -1))), (), None, (), None)
_QAL_2 = retable(_QAL, ('lit', ('int', -1)), ('lit', ('int', -2)))  # hash(-1) == hash(-2)
HISTORIES = [
    # two statements that print the same (equally named tables of two catalog versions), each served by its own feed
    Case(_QA_2, ((2, (A,)), (2, (A2,))), (_QA,)),
    Case(_QA, ((None, (A2,)), (7, (A,))), (_QA_2, _QA, _QA_2), 'single'),
    Case(A2, ((1, (A,)), (1, (A2,))), (A, A2, A)),
    # two statements whose hashes collide (a literal -1 / -2), one of them advertised as a whole
    Case(_QAL_2, ((5, (_QAL,)), (1, (A,))), (_QAL,)),
    Case(_QAL, ((5, (_QAL_2,)), (1, (A,))), (_QAL_2, _QAL)),
    # a fault below / above the covering feed, over a history
    Case(_QA, ((9, (A,)), (1, (B,), Conf(fault='ctor:ValueError'))), (_QB, _QA)),
    # the high-priority feed lacks a table of the first request and covers the later ones
    Case(_QA, ((10, (A,)), (2, (A, B))), (_QB,)),
    Case(_QA, ((10, (A,)),), (_QB, _QA, _QB)),
    Case(_QJ, ((None, (A, B)), (3, (A, B, C))), (('query', C, (('elem', C, 'name'),), None, (), None, (), None), _QA)),
    Case(A, ((4, (A,)), (4, (B,))), (B, A, B, C)),
    Case(_QB, ((1, (B,)), (9, (A,))), (_QA, _QA, _QB, _QA)),
    # round 5: more distinct statements than functools.lru_cache keeps (128): the first ones are evicted and asked again,
    # in between a statement served by the other feed and one nobody covers (C09_match_lru_history_independent)
    Case(_QAL, ((1, (A,)), (9, (B,))),
         tuple(retable(_QAL, ('lit', ('int', -1)), ('lit', ('int', k))) for k in range(1, 131))
         + (_QB, retable(_QAL, ('lit', ('int', -1)), ('lit', ('int', 1))), C, _QAL_2, _QB)),
]


class C09(fw.Check):
    ID = 'C09'
    LEAN_MODULES = ['ForML.Props.C09']
    DRIVER = 'drv_c09'
    RULE = ('(statement, pool) pairs: statements from the shared typed DSL generator over the 3-table catalog (queries, sets, '
            'joins, references, bare tables; depth 1-2) x pools of 1..3 real io.Feed subclasses (explicit instances = infinite '
            'priority, or lazily configured feeds with priorities in halves incl. ties, 0 and negatives) whose '
            'advertised sources are subsets of {tables, references, joins, sub-queries, sets of the statement} + near misses '
            '(one leaf changed) + unrelated sources.  The lazily configured feeds are hand-made setup.Feed tuples (2/7 of the cases) or '
            '[FEED.x] sections of the platform configuration (own priority option absent/int/float, 0-4 generic options, in 60 % a '
            'params sub-table with 0-7 options drawn from {priority, provider, params, reference, region, qos, weight} - a '
            'priority in it lies around the priorities of the pool -, the constructor argument on top / in params / both, 3 provider '
            'references, 2 % malformed: priority a string / a table, params a number / a string, section missing) resolved by '
            'setup.Feed(ref) each (3/7; 6 % of those members handed over as the bare reference string) or by setup.Feed.resolve([refs]) '
            '(2/7).  In the routes with the importer\'s argument order (direct, single) 10 % of the lazily configured members cannot be '
            'brought up (unknown provider reference, the constructor raising RuntimeError / ConnectionRefusedError / ValueError / '
            'MissingError, a missing constructor argument), at whatever priority position; 12 % of all members map their sources to '
            'falsy handles (None, 0, \'\', (), False, 0.0, frozenset()); in 15 % of the pools one feed serves another catalog version '
            '(same table name, another schema) of a table.  Plus request histories (one of 136 calls over 132 distinct statements overflows the real lru_cache and re-asks evicted statements; the model answers with and without eviction): 2..6 match() calls on ONE importer instance over 2..3 distinct statements with repetitions '
            '(in 45 % one of them has a twin that is easily taken for it: over another catalog version of a table - both print the same - or with an integer literal of the same hash), each request '
            'a case of its own; a case is distinct by (statement, pool, sections, route, earlier requests) and non-trivial when a feed '
            'advertises a non-table or the pool has >= 2 feeds.  Compared with the model: selected index (single-shot, matchSeq for '
            'histories, the configured-pool model for the config routes), matcher verdict per feed, per feed the parser outcome '
            '(ok / unprovisioned / other error class) and the source skeleton the tuple parser built against the parser machine, the '
            'SQLAlchemy parser verdict on a third, per section the descriptor (provider reference, priority, params) and the keyword '
            'arguments the feed constructor received, and which lazily configured feeds the importer constructed for the request, in order '
            '(constructor log of the doubles) / what a fault makes of the match, against matchFault.  Oracle = the property text on the ASTs read back from the real objects, '
            'feeds ranked by their configured priority; a feed that cannot be brought up is no candidate, a fault at or above the best '
            'covering feed may surface (the correspondence pins how), a fault below it must not.')
    TRUSTED = [
        'source equality inside frozenset/dict is structural on the generated cases (hash-colliding literals are excluded from '
        'the near misses: C08)',
        'the tuple parser double implements only generate_* (pure wrappers); resolve_source/bypass/visit_* are forml code',
    ]
    ASSUMPTIONS = ['bringing a lazily configured feed up is deterministic (it fails always or never) and the priority of a slot is known '
                   'without instantiating it',
                   'priorities are finite floats, multiples of 0.5 (no NaN); ties are resolved in construction order as documented '
                   '("the first feed with the highest priority"), after setup.Feed.resolve by the provider reference',
                   'configuration sections enter as the dicts the TOML parser delivers (put into forml.setup CONFIG for the duration '
                   'of a case); the file parsing / merging itself is not exercised; numeral strings and booleans are not used as priority',
                   'parser failures other than UnprovisionedError (unsupported constructs, D5) are outside this property and are '
                   'only counted']

    # ---- generation ------------------------------------------------------------------------------
    def _statement(self, gen):
        r = self.rng
        choice = r.random()
        if choice < 0.8:
            return gen.statement(r.choice((1, 1, 2)))
        if choice < 0.9:
            return gen.origin(r.choice((1, 2)))
        return gen.query(2, named=True)

    @staticmethod
    def _builds(ast) -> bool:
        """the public DSL API accepts the statement (the generator is typed, a near miss need not be)"""
        try:
            return g.to_ast(g.Builder().build(ast)) is not None
        except Exception:  # pylint: disable=broad-except
            return False

    @staticmethod
    def _parseable(ast) -> bool:
        """a feed advertising every table gets its parser through the statement (otherwise the parser fails for reasons
        outside this property - unsupported constructs, non-predicate filters - before or while it resolves sources)"""
        try:
            return observe(Case(ast, ((None, tuple(tables_of(ast))),))).parses[0] == 'ok'
        except Exception:  # pylint: disable=broad-except
            return False

    def _near(self, node):
        muts = [m for label, m in g.leaf_mutations(node, self.rng) if label in SAFE_MUTATIONS and m != node]
        self.rng.shuffle(muts)
        for m in muts[:4]:
            if g.well_formed(m)[0] and self._builds(m):
                return m
        return None

    def _advertised(self, stmt, other) -> tuple:
        r = self.rng
        subs = list(dict.fromkeys(subsources(stmt)))
        tabs = [n for n in subs if n[0] == 'table']
        nont = [n for n in subs if n[0] != 'table']
        mode = r.choice(('tables', 'tables', 'cut', 'cut', 'cut', 'random', 'random', 'near', 'whole', 'foreign', 'empty'))
        adv: list = []
        if mode == 'tables':
            adv = list(tabs)
            if r.random() < 0.4 and adv:
                adv.remove(r.choice(adv))
            adv += [n for n in nont if r.random() < 0.25]
        elif mode in ('cut', 'near') and nont:
            cut = r.choice(nont)
            inside = set(subsources(cut))
            adv = [t for t in tabs if t not in inside or r.random() < 0.2]
            # tables that also occur outside the cut have to be advertised for a cover
            outside = [n for n in self._outside(stmt, cut) if n[0] == 'table']
            adv += [t for t in outside if t not in adv]
            if mode == 'near':
                near = self._near(cut)
                adv.append(near if near is not None else cut)
            else:
                adv.append(cut)
            if r.random() < 0.25 and adv:
                adv.remove(r.choice(adv))
            if r.random() < 0.3:
                adv.append(r.choice(subs))
        elif mode == 'whole':
            adv = [stmt] + [t for t in tabs if r.random() < 0.3]
        elif mode == 'foreign':
            adv = [n for n in dict.fromkeys(subsources(other)) if r.random() < 0.5]
        elif mode == 'empty':
            adv = []
        else:
            p = r.choice((0.3, 0.5, 0.8))
            adv = [n for n in subs + list(g.CATALOG) if r.random() < p]
        r.shuffle(adv)
        return tuple(dict.fromkeys(adv))

    @staticmethod
    def _outside(stmt, cut):
        """nodes of the skeleton that are reached without passing through `cut`"""
        def walk(node):
            if node == cut:
                return
            yield node
            for c in children(node):
                yield from walk(c)
        return list(walk(stmt))

    TOP_NAMES = ('region', 'qos', 'weight', 'tier')
    PARAM_NAMES = ('priority', 'provider', 'params', 'reference', 'region', 'qos', 'weight')

    def _value(self, levels, name=None):
        """an option value: a number (whole or in halves), or a string; for an option called `priority` a number around
        the priorities of the pool, so that taking it for the pool priority would change the order"""
        r = self.rng
        if name == 'priority' or r.random() < 0.3:
            v2 = r.choice(levels) + r.choice((0, 1, -1, 2, -2, 3, 100, -100))
            return v2 / 2 if v2 % 2 or r.random() < 0.3 else v2 // 2
        return r.choice((0, 1, 7, -3, 50, 0.5, 2.5, -1.5, 'eu', 'high', 'x y', '', ALIASES[1]))

    def _conf(self, prio2, levels) -> Conf:
        """how the section of a lazily configured member is written"""
        r = self.rng
        form = r.choice(['float'] + (['int', 'int'] if prio2 % 2 == 0 else []) + (['absent', 'absent', 'absent'] if prio2 == 0 else []))
        top = tuple((name, self._value(levels)) for name in self.TOP_NAMES if r.random() < 0.2)
        params = None
        if r.random() < 0.6:
            names = [name for name in self.PARAM_NAMES if r.random() < 0.25]
            if 'priority' not in names and r.random() < 0.5:
                names.append('priority')
            r.shuffle(names)
            params = tuple((name, self._value(levels, name)) for name in names)
        keyat = 'top' if params is None else r.choice(('top', 'params', 'params', 'both'))
        broken = r.choice(('priority-text', 'priority-table', 'params-num', 'params-text', 'missing')) if r.random() < 0.02 else None
        return Conf(form, top, params, keyat, r.choice((0, 0, 1, 2)), r.random() < 0.1, broken,
                    'reference' if r.random() < 0.06 else 'descriptor')

    def _dress(self, pool: list, route: str, levels) -> tuple:
        """how the members come about: the section of a lazily configured one (config routes), whether it can be brought up
        at all (routes direct / single: 10 % cannot - unknown provider reference, a constructor raising, a missing
        parameter - at whatever priority position it happens to stand), what handles its sources map to (12 % falsy)"""
        r = self.rng
        out = []
        for m in pool:
            prio, adv = m[0], m[1]
            conf = self._conf(prio, levels) if route != 'direct' and prio is not None else PLAIN
            if prio is not None and route != 'multi' and r.random() < 0.1:
                conf = conf._replace(fault=r.choice(('unknown-provider', 'missing-key') + tuple('ctor:' + c for c in REFUSALS)))
            if r.random() < 0.12:
                conf = conf._replace(natives='falsy')
            out.append((prio, adv) if conf == PLAIN else (prio, adv, conf))
        return tuple(out)

    def _twin(self, stmt):
        """a different statement that is easily taken for `stmt`: over another catalog version of one of its tables (same
        name: the two print the same), or with an integer literal replaced by one of the same hash"""
        r = self.rng
        lits = list(dict.fromkeys(int_literals(stmt)))
        if lits and r.random() < 0.3:
            lit = r.choice(lits)
            twin = retable(stmt, lit, ('lit', ('int', colliding(lit[1][1]))))
        else:
            table = r.choice(tables_of(stmt))
            twin = retable(stmt, table, schema_twin(table, r.randrange(2)))
        return twin if twin != stmt and g.well_formed(twin)[0] and self._builds(twin) else None

    def _route(self) -> str:
        return self.rng.choice(('direct', 'direct', 'single', 'single', 'single', 'multi', 'multi'))

    def _pool(self, stmt, other, route='direct') -> tuple:
        r = self.rng
        n = r.choice((1, 2, 2, 3, 3))
        levels = r.choice(((2, 2, 2), (0, 2, 2), (1, 4, 9), (-4, 0, 5), (3, 3, 40), (-1, -1, -3), (5, 4, 4)))
        pool = []
        for i in range(n):
            prio = None if r.random() < 0.25 else r.choice(levels)
            pool.append((prio, self._advertised(stmt, other)))
        if n > 1 and r.random() < 0.3:
            # the same advertised set at different positions / priorities: only the order decides
            pool[r.randrange(n)] = (pool[0][0] if r.random() < 0.5 else r.choice(levels), pool[0][1])
        if r.random() < 0.15:
            # one feed serves another catalog version of a table (same name, another schema)
            i, table = r.randrange(n), r.choice(tables_of(stmt))
            for variant in (r.randrange(2), 0):  # (dropping a column the advertised statement uses would not build)
                adv = tuple(dict.fromkeys(retable(a, table, schema_twin(table, variant)) for a in pool[i][1]))
                if all(self._builds(a) for a in adv):
                    pool[i] = (pool[i][0], adv)
                    break
        return self._dress(pool, route, levels)

    def _histories(self, gen) -> list:
        """Request histories: 2..6 `match()` calls on ONE importer instance over 2..3 distinct statements (repetitions hit
        the lru_cache with an equal, not identical, statement); every feed is drawn to suit one of the statements (or two),
        so that a feed typically fails to cover one request and covers a later one, and vice versa."""
        r = self.rng
        out = list(HISTORIES)
        wanted = len(out) + self.n(130, 1300)
        while len(out) < wanted:
            distinct = []
            while len(distinct) < r.choice((2, 2, 3)):
                stmt = self._statement(gen) if r.random() < 0.7 else r.choice(g.CATALOG)
                if stmt not in distinct and self._builds(stmt) and (self._parseable(stmt) or r.random() < 0.1):
                    distinct.append(stmt)
            if r.random() < 0.45:
                twin = self._twin(r.choice(distinct))
                if twin is not None and twin not in distinct:
                    distinct.append(twin)
            asked = list(distinct) + [r.choice(distinct) for _ in range(r.randint(0, 6 - len(distinct)))]
            r.shuffle(asked)
            levels = r.choice(((2, 2, 2), (0, 2, 2), (1, 4, 9), (-4, 0, 5), (5, 4, 4)))
            pool = []
            for _ in range(r.choice((1, 2, 2, 3, 3))):
                target = r.choice(distinct)
                adv = self._advertised(target, r.choice(distinct))
                if r.random() < 0.3:
                    adv = tuple(dict.fromkeys(adv + self._advertised(r.choice(distinct), target)))
                pool.append((None if r.random() < 0.25 else r.choice(levels), adv))
            route = self._route()
            out.append(Case(asked[-1], self._dress(pool, route, levels), tuple(asked[:-1]), route))
        return out

    def _cases(self) -> list:
        gen = g.Gen(self.rng, small_ints=True)
        cases = list(CORPUS)
        wanted, skipped, unparseable = len(cases) + self.n(600, 6000), 0, 0
        while len(cases) < wanted:
            stmt = self._statement(gen)
            other = self._statement(gen)
            if not (self._builds(stmt) and self._builds(other)):
                skipped += 1
                if skipped > 3 * wanted:
                    raise fw.MachineryError('the DSL generator mostly produces statements forml rejects')
                continue
            if not self._parseable(stmt) and self.rng.random() < 0.9:
                unparseable += 1
                if unparseable > 20 * wanted:
                    raise fw.MachineryError('no generated statement gets through the parser of a fully provisioned feed')
                continue
            route = self._route()
            cases.append(Case(stmt, self._pool(stmt, other, route), (), route))
        cases.extend(self._histories(gen))
        self.extra['generated_statements_rejected_by_forml'] = skipped
        self.extra['generated_statements_mostly_dropped_as_unparseable'] = unparseable
        if not self.quick:
            # exhaustive: every subset of the sub-sources (at most 8 of them) for 30 base statements, single feed
            done = 0
            while done < 30:
                stmt = gen.statement(2) if self.rng.random() < 0.7 else gen.origin(2)
                subs = list(dict.fromkeys(subsources(stmt)))
                if len(subs) < 4 or not self._builds(stmt) or not self._parseable(stmt):
                    continue
                if len(subs) > 8:
                    subs = self.rng.sample(subs, 8)
                done += 1
                for k in range(len(subs) + 1):
                    for combo in itertools.combinations(subs, k):
                        cases.append(Case(stmt, ((None, combo),)))
        return cases

    # ---- one batch: real code, model, oracle -----------------------------------------------------
    @staticmethod
    def line(obs: Observed) -> str:
        pool = tuple(('inf' if p is None else p, tuple(g.short(a) for a in sorted(adv, key=repr))) for p, adv in obs.pool)
        return sexp.dumps(g.with_let(('c09', g.short(obs.statement), pool)))

    @staticmethod
    def _val(v):
        if isinstance(v, dict):
            return ('table', tuple((k, C09._val(x)) for k, x in v.items()))
        if isinstance(v, bool) or not isinstance(v, (int, float, str)):
            raise fw.MachineryError(f'option value outside the wire format: {v!r}')
        if isinstance(v, str):
            return ('text', v)
        if not float(v * 2).is_integer():
            raise fw.MachineryError(f'option value outside the wire format: {v!r}')
        return ('num', int(v * 2))

    @staticmethod
    def conf_line(obs: Observed, route: str) -> str:
        """`(c09conf statement members route)`: the sections exactly as they were put into the platform configuration"""
        members = []
        for (_, adv), sec, byname in zip(obs.pool, obs.sections, obs.byname):
            srcs = tuple(g.short(a) for a in sorted(adv, key=repr))
            if sec is None:
                members.append(('inst', srcs))
            else:
                ref, options = sec
                members.append(('name' if byname else 'conf', ref, 'none' if options is None else tuple((k, C09._val(v)) for k, v in options.items()), srcs))
        return sexp.dumps(g.with_let(('c09conf', g.short(obs.statement), tuple(members), route)))

    @staticmethod
    def _unval(x):
        if x[0] == 'num':
            h = int(x[1])
            return h / 2 if h % 2 else h // 2
        if x[0] == 'text':
            return x[1]
        return {k: C09._unval(v) for k, v in x[1]}

    @staticmethod
    def parse_conf_answer(ans: str):
        """(selection: index | None | ('pool-error', class), per member: None | (provider, priority2, params) | ('error', class))"""
        m = sexp.loads(ans)
        if not isinstance(m, list) or m[0] != 'ok':
            return None
        sel = (None if m[1] == 'none' else ('pool-error', m[1][1]) if m[1][0] == 'err' else ('error', m[1][1]) if m[1][0] == 'raise'
               else int(m[1][1]))
        reports = []
        for r in m[2]:
            if r == 'inst':
                reports.append(None)
            elif r[0] == 'err':
                reports.append(('error', r[1]))
            else:
                reports.append((r[1], int(r[2]), {k: C09._unval(v) for k, v in r[3]}))
        return sel, reports

    @staticmethod
    def parse_answer(ans: str):
        m = sexp.loads(ans)
        if not isinstance(m, list) or m[0] != 'ok':
            return None
        sel = None if m[1] == 'none' else int(m[1][1])
        return sel, [x == 'true' for x in m[2]], [x == 'true' for x in m[3]], m[4]

    @staticmethod
    def machine_verdict(r) -> str:
        """the parser machine's answer in the vocabulary of `Observed.parses`"""
        if r[0] == 'ok':
            return 'ok'
        return 'unprovisioned' if r[1] == 'unprovisioned' else 'other:' + r[1]

    @staticmethod
    def machine_skeleton(term, advertised: list):
        """the machine's term with its natives looked up in the advertised list the line carried"""
        tag = term[0]
        if tag == 'native':
            k = int(term[1])
            return ('native', advertised[k] if k < len(advertised) else None)
        if tag == 'ref':
            return ('ref', C09.machine_skeleton(term[1], advertised), term[2])
        if tag in ('join', 'set'):
            return (tag, C09.machine_skeleton(term[1], advertised), C09.machine_skeleton(term[2], advertised), term[3])
        if tag == 'query':
            return ('query', C09.machine_skeleton(term[1], advertised))
        return ('?', term)

    @staticmethod
    def _shape(obs: Observed) -> str:
        n = len(obs.pool)
        nont = 'sub-statements' if any(a[0] != 'table' for _, adv in obs.pool for a in adv) else 'tables-only'
        if obs.selected is None:
            res = 'missing'
        elif isinstance(obs.selected, tuple):
            res = 'error'
        else:
            res = 'selected/' + obs.parses[obs.selected].split(':')[0]
        conf = ''
        if any(sec is not None for sec in obs.sections):
            flags = [w for w, hit in (('params', any(sec[1] and 'params' in sec[1] for sec in obs.sections if sec)),
                                      ('priority-in-params', any(sec[1] and isinstance(sec[1].get('params'), dict) and 'priority' in sec[1]['params']
                                                                 for sec in obs.sections if sec)),
                                      ('malformed', not obs.wellformed)) if hit]
            conf = ' configured' + (('[' + ','.join(flags) + ']') if flags else '')
        if any(obs.faults):
            conf += ' faulty'
        if any(obs.falsy):
            conf += ' falsy-handles'
        if isinstance(obs.selected, tuple) and obs.selected[0] == 'pool-error':
            return f'feeds={n}{conf} -> no pool ({obs.selected[1]})'
        return f'feeds={n}{conf} advertised={nont} -> {res}'

    def _check(self, cases: list, tag: str = '') -> None:
        """Every request of every case (a case with `before` is a request history answered by ONE importer instance) is
        compared with the single-shot model and judged by the oracle; a history is also compared with `matchSeq`."""
        entries, first, seqs = [], {}, []  # entries: (case of that request, observed, case index)
        for idx, case in enumerate(cases):
            run = observe_all(case, sql=False, split_builders=idx % 2 == 1)
            asked = case.before + (case.statement,)
            for j, obs in enumerate(run):
                entries.append((Case(asked[j], case.pool, asked[:j], case.route), obs, idx))
            if (case.before and case.route != 'multi' and not any(run[0].faults)
                    and not (isinstance(run[0].selected, tuple) and run[0].selected[0] == 'pool-error')):
                seqs.append((case, run))  # (multi: every request is compared by _compare_configured, faults: by _compare_lazy)
        lines = [self.line(o) for _, o, _ in entries]
        for case, run in seqs:
            pool = tuple(('inf' if p is None else p, tuple(g.short(a) for a in sorted(adv, key=repr))) for p, adv in run[0].pool)
            lines.append(sexp.dumps(g.with_let(('c09seq', tuple(g.short(o.statement) for o in run), pool))))
        configured = [k for k, (case, _, _) in enumerate(entries) if case.route != 'direct']
        lines += [self.conf_line(entries[k][1], entries[k][0].route) for k in configured]
        # pools in importer-argument order (direct / single): which members are brought up, what a fault makes of the match
        lazy = [k for k, (case, obs, _) in enumerate(entries) if case.route != 'multi'
                and not (isinstance(obs.selected, tuple) and obs.selected[0] == 'pool-error') and not any(obs.byname)]
        lines += [self.fault_line(entries[k][1]) for k in lazy]
        answers = self.model(lines)
        for (case, run), ans in zip(seqs, answers[len(entries):]):
            m = sexp.loads(ans)
            got = [o.selected for o in run]
            want = None if not isinstance(m, list) or m[0] != 'ok' else [None if x == 'none' else int(x[1]) for x in m[1]]
            if got != want:
                self.diverge('answers of one importer instance to a request history', case_json(case), got, want)
            # round 5: the model WITH the eviction of functools.lru_cache (capacity 128 as in the code, and capacity 1)
            for label, col in (('lru_cache(128)', 2), ('lru_cache(1)', 3)):
                lru = (None if want is None or len(m) <= col
                       else [None if x == 'none' else int(x[1]) for x in m[col]])
                if got != lru:
                    self.diverge(f'answers of one importer instance to a request history, model with {label} eviction',
                                 case_json(case), got, lru)
        for k, ans in zip(configured, answers[len(entries) + len(seqs):]):
            self._compare_configured(entries[k][0], entries[k][1], ans)
        for k, ans in zip(lazy, answers[len(entries) + len(seqs) + len(configured):]):
            self._compare_lazy(entries[k][0], entries[k][1], ans)
        sql_done = set()
        for (case, obs, idx), ans in zip(entries, answers):
            nontrivial = len(obs.pool) > 1 or any(a[0] != 'table' for _, adv in obs.pool for a in adv)
            hist = f'history[{len(cases[idx].before) + 1}] ' if cases[idx].before else ''
            self.case((obs.statement, obs.pool, case.before, case.route, obs.sections), tag + hist + self._shape(obs), nontrivial,
                      sample={'statement': sexp.dumps(g.short(obs.statement))[:300],
                              'pool': [[p, [sexp.dumps(g.short(a))[:120] for a in adv]] for p, adv in obs.pool],
                              'sections': [None if sec is None else list(sec) for sec in obs.sections], 'route': case.route,
                              'selected': obs.selected, 'parses': obs.parses, 'earlier_requests': obs.earlier})
            for p in obs.parses:
                if p.startswith('other:'):
                    self.extra.setdefault('parser_other_errors', {}).setdefault(p, 0)
                    self.extra['parser_other_errors'][p] += 1
            m = self.parse_answer(ans)
            witness = case_json(case)
            if m is None:
                self.diverge('model rejected the case', witness, None, ans)
                continue
            msel, mcov, mres, mfull = m
            pool_error = isinstance(obs.selected, tuple) and obs.selected[0] == 'pool-error'
            if not pool_error:
                if case.route != 'multi' and not any(obs.faults) and obs.selected != msel:  # otherwise: _compare_configured / _lazy
                    self.diverge('Importer.match selection', witness, obs.selected, msel)
                if list(obs.covers) != mcov:
                    self.diverge('matcher verdict per feed', witness, list(obs.covers), mcov)
                for i, (p, r) in enumerate(zip(obs.parses, mres)):
                    if not p.startswith('other:') and (p == 'ok') != r:
                        self.diverge(f'parser verdict of feed {i}', witness, p, r)
                # the parser machine (contexts, symbol stack, origins registry, bypass): verdict and what it built
                for i, (p, r) in enumerate(zip(obs.parses, mfull)):
                    if p != self.machine_verdict(r):
                        self.diverge(f'parser of feed {i}: outcome', witness, p, self.machine_verdict(r))
                    elif p == 'ok' and obs.skeletons[i] is not None:
                        want = self.machine_skeleton(r[1], sorted(obs.pool[i][1], key=repr))
                        if obs.skeletons[i] != want:
                            self.diverge(f'parser of feed {i}: sources it resolved the statement to', witness,
                                         listify(obs.skeletons[i]), listify(want))
            for what, sig in oracle(obs):
                first.setdefault(sig, (what, case))
            if idx % 3 == 0 and idx not in sql_done:
                # the SQLAlchemy parser shipped with forml goes through the same source resolution
                sql_done.add(idx)
                for sq in observe_all(cases[idx], sql=True, split_builders=False)[-1:]:
                    full = cases[idx]
                    self.case(('sql', sq.statement, sq.pool, full.before), tag + 'alchemy ' + self._shape(sq), nontrivial)
                    for what, sig in oracle(sq):
                        first.setdefault(sig, (what + ' (SQLAlchemy parser)', full))
                    if not full.before and not pool_error:
                        if sq.selected != obs.selected or sq.covers != obs.covers:
                            self.diverge('selection differs between two feed classes with the same sources', witness,
                                         [sq.selected, sq.covers], [obs.selected, obs.covers])
                        for i, (p, r) in enumerate(zip(sq.parses, mres)):
                            if not p.startswith('other:') and (p == 'ok') != r:
                                self.diverge(f'SQLAlchemy parser verdict of feed {i}', witness, p, r)
        # one (minimised) failing input per root-cause signature
        for sig, (what, case) in first.items():
            small = self._shrink(case, sig)
            whats = [w for w, s in self._violations_of(small) if s == sig]
            self.violate(whats[0] if whats else what, case_json(small), sig)

    @staticmethod
    def fault_line(obs: Observed) -> str:
        """`(c09fault statement pool)`: every member with what bringing it up yields"""
        pool = []
        for (p, adv), fault in zip(obs.pool, obs.faults or (None,) * len(obs.pool)):
            what = ('feed', tuple(g.short(a) for a in sorted(adv, key=repr)))
            if fault is not None:
                what = ('fails', {'unknown-provider': 'MissingError', 'missing-key': 'TypeError'}.get(fault, fault[5:]))
            pool.append(('inf' if p is None else p, what))
        return sexp.dumps(g.with_let(('c09fault', g.short(obs.statement), tuple(pool))))

    def _compare_lazy(self, case: Case, obs: Observed, ans: str) -> None:
        """the importer brings its lazily configured feeds up one by one, in pool order, only as far as it has to"""
        witness = case_json(case)
        m = sexp.loads(ans)
        if not isinstance(m, list) or m[0] != 'ok':
            self.diverge('model rejected the pool', witness, None, ans)
            return
        msel = (None if m[1] == 'none' else int(m[1][1]) if m[1][0] == 'some'
                else None if m[1][1] == 'MissingError' else ('error', m[1][1]))  # (a MissingError is a MissingError, whoever raises it)
        if obs.selected != msel:
            self.diverge('Importer.match on a pool with a feed that cannot be brought up' if any(obs.faults)
                         else 'Importer.match selection', witness, obs.selected, msel)
        if obs.earlier == 0:
            # constructor calls are observable for the lazily configured doubles whose provider exists and which are given a key
            seen = [i for i in (int(x) for x in m[2]) if obs.pool[i][0] is not None
                    and (obs.faults[i] is None or obs.faults[i].startswith('ctor:'))]
            if list(obs.touched) != seen:
                self.diverge('lazily configured feeds the importer brought up for this request (in order)', witness,
                             list(obs.touched), seen)

    def _compare_configured(self, case: Case, obs: Observed, ans: str) -> None:
        """pools built from the configuration against `(c09conf ...)`: the descriptor of every section (provider reference,
        priority, params), what the feed constructor received, whether a pool could be built at all, the selection"""
        witness = case_json(case)
        m = self.parse_conf_answer(ans)
        if m is None:
            self.diverge('model rejected the configured pool', witness, None, ans)
            return
        msel, reports = m
        if obs.selected != msel and not any(obs.faults):  # (the configured-pool model knows no faults: _compare_lazy)
            self.diverge(f'selection from the pool built by {witness["descriptors_resolved_by"]}', witness, obs.selected, msel)
        if obs.earlier:
            return
        for i, (real, want, kwargs, sec) in enumerate(zip(obs.descriptors, reports, obs.kwargs, obs.sections)):
            if sec is None:
                continue
            if real != want:
                if isinstance(real, tuple) and isinstance(want, tuple) and len(real) == 3 and len(want) == 3:
                    for name, a, b in zip(('provider reference', 'priority (in halves)', 'params'), real, want):
                        if a != b:
                            self.diverge(f'setup.Feed descriptor of feed {i}: {name}', witness, a, b)
                else:
                    self.diverge(f'setup.Feed descriptor of feed {i}', witness, real, want)
            if isinstance(kwargs, dict) and len(want) == 3 and kwargs != want[2]:
                self.diverge(f'keyword arguments the constructor of feed {i} received', witness, kwargs, want[2])
            if isinstance(kwargs, dict) and sec[1] is not None and obs.wellformed and kwargs != expected_kwargs(sec[1]):
                self.extra.setdefault('constructor_kwargs_differ_from_the_documented_reading', []).append(witness)

    def correspondence(self) -> None:
        cases = self._cases()
        self._check(cases)
        if not self.quick:
            self._planted()

    def _planted(self) -> None:
        """Self-test of the tie: a deliberately wrong model line (priorities negated) must be noticed."""
        case = Case(_QJ, ((2, (A, B)), (8, (B, A))))
        obs = observe(case)
        wrong = obs._replace(pool=tuple((None if p is None else -p, adv) for p, adv in obs.pool))
        m = self.parse_answer(self.model([self.line(wrong)])[0])
        if m is None or m[0] == obs.selected:
            raise fw.MachineryError('planted divergence (negated priorities) was not noticed by the correspondence')
        # a section whose own priority is replaced by the `priority` of its params sub-table must change the model's answer
        conf = Case(_QJ, ((2, _AB, Conf('int', (), (('priority', 100),), 'params')), (20, _AB, PLAIN)), (), 'single')
        obs = observe(conf)
        stolen = tuple(sec if i else (sec[0], {**sec[1], 'priority': sec[1]['params']['priority']})
                       for i, sec in enumerate(obs.sections))
        m = self.parse_conf_answer(self.model([self.conf_line(obs._replace(sections=stolen), 'single')])[0])
        if m is None or m[0] == obs.selected or obs.selected != 1:
            raise fw.MachineryError('planted divergence (params priority taken for the pool priority) was not noticed')
        # a parser machine that is not given a table the real parser was given must come out differently
        full = observe(Case(_QJ, ((None, _AB),)))
        lacking = full._replace(pool=((None, frozenset((A,))),))
        m = self.parse_answer(self.model([self.line(lacking)])[0])
        if m is None or self.machine_verdict(m[3][0]) == full.parses[0] or full.parses[0] != 'ok':
            raise fw.MachineryError('planted divergence (a table withheld from the parser machine) was not noticed')
        self.notes.append('planted-divergence self-tests passed (negated priorities, a stolen priority, a withheld table are noticed)')

    # ---- failing-input search ----------------------------------------------------------------------
    def _violations_of(self, case: Case) -> list:
        try:
            return oracle(observe(case))
        except Exception:  # pylint: disable=broad-except
            return []

    def _shrink(self, case: Case, sig: str) -> Case:
        """Greedy: shorter request history, smaller statements (one of their sub-sources), fewer feeds, fewer advertised
        sources."""
        def fails(c):
            return any(s == sig for _, s in self._violations_of(c))

        changed = True
        while changed:
            changed = False
            if case.before and fails(case._replace(before=())):
                case, changed = case._replace(before=()), True
                continue
            for i in range(len(case.before)):
                cands = [case._replace(before=case.before[:i] + case.before[i + 1:])]
                cands += [case._replace(before=case.before[:i] + (sub,) + case.before[i + 1:])
                          for sub in list(subsources(case.before[i]))[1:]]
                for cand in cands:
                    if fails(cand):
                        case, changed = cand, True
                        break
                if changed:
                    break
            if changed:
                continue
            for sub in list(subsources(case.statement))[1:]:
                cand = case._replace(statement=sub)
                if fails(cand):
                    case, changed = cand, True
                    break
            if changed:
                continue
            for i in range(len(case.pool)):
                if len(case.pool) > 1:
                    cand = case._replace(pool=case.pool[:i] + case.pool[i + 1:])
                    if fails(cand):
                        case, changed = cand, True
                        break
                prio, adv, *rest = case.pool[i]
                for j in range(len(adv)):
                    cand = case._replace(pool=case.pool[:i] + ((prio, adv[:j] + adv[j + 1:], *rest),) + case.pool[i + 1:])
                    if fails(cand):
                        case, changed = cand, True
                        break
                if changed:
                    break
                # a simpler section: no special way of writing it, fewer options
                conf = member(case.pool[i])[2]
                simpler = [conf._replace(**{f: getattr(PLAIN, f)}) for f in ('fault', 'natives') if getattr(conf, f) != getattr(PLAIN, f)]
                if case.route != 'direct' and prio is not None and conf != PLAIN:
                    simpler.append(PLAIN)
                    if conf.params:
                        simpler += [conf._replace(params=conf.params[:j] + conf.params[j + 1:]) for j in range(len(conf.params))]
                    simpler += [conf._replace(top=conf.top[:j] + conf.top[j + 1:]) for j in range(len(conf.top))]
                    simpler += [conf._replace(**{f: getattr(PLAIN, f)}) for f in ('keyat', 'provider', 'named', 'form', 'given')
                                if getattr(conf, f) != getattr(PLAIN, f) and not (f == 'form' and prio % 2)
                                and not (f == 'keyat' and conf.params is None)]
                for c in simpler:
                    cand = case._replace(pool=case.pool[:i] + ((prio, adv) + (() if c == PLAIN else (c,)),) + case.pool[i + 1:])
                    if fails(cand):
                        case, changed = cand, True
                        break
                if changed:
                    break
            if not changed and case.route != 'direct':
                for route in ('direct', 'single'):
                    if route != case.route and fails(case._replace(route=route)):
                        case, changed = case._replace(route=route), True
                        break
        return case

    def search(self, reason: str) -> None:
        """Widen around the diverging cases: every advertised subset of the statement's sub-sources as a single feed, and
        all orders / priority patterns of the diverging pool; oracle on the real code; shrink what fails."""
        seeds = []
        for d in self.divergences:
            if isinstance(d.case, dict) and 'statement' in d.case:
                c = case_from_json(d.case)
                if c not in seeds:
                    seeds.append(c)
        gen = g.Gen(self.rng, small_ints=True)
        if not seeds:
            seeds = list(CORPUS) + [Case(s, ()) for s in (self._statement(gen) for _ in range(40))]
        tried, found = 0, {}
        for seed in seeds[:25]:
            subs = list(dict.fromkeys(subsources(seed.statement)))[:7]
            cands = []
            for k in range(len(subs) + 1):
                for combo in itertools.combinations(subs, k):
                    cands.append(Case(seed.statement, ((None, combo),)))
            advs = [m[1] for m in seed.pool] or [tuple(tables_of(seed.statement))]
            for perm in itertools.permutations(advs):
                for prios in itertools.product((None, 2, 6), repeat=len(perm)):
                    cands.append(Case(seed.statement, tuple(zip(prios, perm))))
            cands = cands[:400]
            if seed.route != 'direct':
                # a pool built from the configuration: every section of the seed against a plainly configured rival that
                # covers too, at every priority level around the numbers the section mentions
                everything = tuple(tables_of(seed.statement))
                for prio, _, conf in (member(m) for m in seed.pool):
                    if prio is None:
                        continue
                    numbers = [prio] + [int(v * 2) for _, v in (conf.params or ()) + conf.top
                                        if isinstance(v, (int, float)) and float(v * 2).is_integer()]
                    levels = sorted({n + d for n in numbers for d in (-1, 1)})
                    for rival in levels:
                        for route in ('single', 'multi'):
                            for pool in (((prio, everything, conf), (rival, everything, PLAIN)),
                                         ((rival, everything, PLAIN), (prio, everything, conf))):
                                cands.append(Case(seed.statement, pool, (), route))
            if seed.route != 'multi':
                # laziness: every lazily configured member in turn replaced by one that cannot be brought up
                for i, m in enumerate(seed.pool):
                    prio, adv, conf = member(m)
                    if prio is not None and conf.fault is None:
                        for fault in ('ctor:RuntimeError', 'unknown-provider'):
                            cands.append(seed._replace(pool=seed.pool[:i] + ((prio, adv, conf._replace(fault=fault)),) + seed.pool[i + 1:]))
            for cand in cands[:700]:
                tried += 1
                for what, sig in self._violations_of(cand):
                    if sig not in found:
                        found[sig] = (what, cand)
        for sig, (what, cand) in found.items():
            small = self._shrink(cand, sig)
            whats = [w for w, s in self._violations_of(small) if s == sig]
            self.violate(whats[0] if whats else what, case_json(small), sig)
        self.notes.append(f'failing-input search ({reason}): {tried} cases around {len(seeds[:25])} seeds, '
                          f'{len(found)} violation signature(s)')

    def replay_finding(self, entry):
        if not isinstance(entry.get('witness'), dict) or 'statement' not in entry['witness']:
            return None
        case = case_from_json(entry['witness'])
        found = oracle(observe(case))
        want = entry.get('signature')
        for what, sig in found:
            if sig == want:
                return fw.Violation(what, entry['witness'], sig)
        for what, sig in found:
            return fw.Violation(what, entry['witness'], sig)
        return None


if __name__ == '__main__':
    raise SystemExit(fw.run(C09))
