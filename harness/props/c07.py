"""C07 — a statement is constructible exactly when it obeys the documented DSL grammar
(forml/io/dsl/_struct/{frame,series,kind}.py vs lean/ForML/Model/Grammar.lean).

Candidate statements are ASTs in the wire format of props/dslgen.py.  Every candidate is

* built into real forml objects through the public DSL API by a `Builder` (several API styles: constructor /
  chained methods, python operators / function classes, `origin[name]` / `dsl.Element`, join kind as enum / str),
  recording success + the stored structure + `.schema`, or the exception class;
* sent to the Lean model driver (`construct`, `.schema`, Lean `WellFormed`);
* judged by `Spec`, an independent Python transcription of the documented rules (docs/dsl/query/syntax.rst and
  the property text), which alone decides violations.
"""
from __future__ import annotations

import collections
import datetime
import decimal
import functools
import itertools
import multiprocessing
import os
import sys
import typing

from core import framework as fw
from core import sexp

from . import dslgen as g

# ---- catalog ---------------------------------------------------------------------------------------------------
#: a fourth table: string `id` (same name, other kind than Student.id), a timestamp column
GRADE = ('table', 'Grade', (('id', 'string'), ('student', 'integer'), ('mark', 'float'), ('taken', 'timestamp')))
CATALOG = g.CATALOG + (GRADE,)
S, K, C, G = g.STUDENT, g.SCHOOL, g.CAMPUS, GRADE


def with_let(line) -> tuple:
    return ('let', tuple((t[1], t) for t in CATALOG), line)


def short(ast):
    if isinstance(ast, tuple):
        if ast in CATALOG:
            return '$' + ast[1]
        return tuple(short(a) for a in ast)
    return ast


def tuplify(x):
    return tuple(tuplify(i) for i in x) if isinstance(x, (list, tuple)) else x


def col(t, n):
    return ('elem', t, n)


def lit(v):
    if isinstance(v, bool):
        return ('lit', ('bool', v))
    if isinstance(v, int):
        return ('lit', ('int', v))
    if isinstance(v, str):
        return ('lit', ('str', v))
    return ('lit', ('float', repr(v)))


def query(src, sel=(), pre=None, grp=(), post=None, order=(), rows=None):
    return ('query', src, tuple(sel), pre, tuple(grp), post, tuple(order), rows)


ROWNUMBER = ('expr', 'rownumber')

# ---- python values (literals beyond the four of the shared AST; kind.reflect) -------------------------------------------
#: one sample value per python type `kind.reflect` distinguishes (keys = constructors of the Lean `PyTag`)
PY_SAMPLE = {'bool': True, 'int': 7, 'float': 1.5, 'str': 'a', 'decimal': decimal.Decimal('1.5'), 'date': datetime.date(2020, 1, 2),
             'datetime': datetime.datetime(2020, 1, 2, 3, 4, 5), 'none': None, 'seq': [7]}
#: values that are equal / hash alike across types come first: a cache keyed by value would mix them up
REFLECT_SAMPLES = (True, 1, 1.0, decimal.Decimal(1), False, 0, 0.0, -0.0, decimal.Decimal(0), -1, 2 ** 70, 1.5, float('inf'), 'a', '', '1',
                   'True', decimal.Decimal('1.5'), datetime.date(2020, 1, 2), datetime.datetime(2020, 1, 2), datetime.datetime(2020, 1, 2, 3, 4, 5),
                   None, [], (), (1,), [True], (1.5,), ('a',), ((1,),), (None,), ((),), (datetime.date(2020, 1, 2),), (False, 0))
DIRECTION_SPELLINGS = ('asc', 'ascending', 'desc', 'descending', 'ASC', 'Asc', 'aSc', 'ASCENDING', 'Ascending', 'DESC', 'Desc', 'dEsC',
                       'DESCENDING', 'Descending', '', 'a', 'as', 'asce', 'ascend', 'des', 'descend', 'up', 'down', ' asc', 'asc ',
                       'ascending ', 'bogus', 'ASCENDING_', '<ascending>', 'Direction.ASCENDING', 'asc,desc', 'none')
JOIN_SPELLINGS = ('inner', 'left', 'right', 'full', 'cross', 'INNER', 'Inner', 'LEFT', 'Cross', 'CROSS', 'outer', 'full outer', 'natural',
                  '', ' inner', 'inner ', 'cross ', 'Kind.INNER', '<inner-join>', 'inner-join', 'none')


def pyval_ast(v) -> tuple:
    """python value -> wire form `PY` of the C07 driver"""
    if isinstance(v, bool):
        return ('bool', v)
    if isinstance(v, int):
        return ('int', v)
    if isinstance(v, float):
        return ('float', repr(v))
    if isinstance(v, str):
        return ('str', v)
    if isinstance(v, decimal.Decimal):
        return ('decimal', str(v))
    if isinstance(v, datetime.datetime):
        return ('datetime', v.isoformat())
    if isinstance(v, datetime.date):
        return ('date', v.isoformat())
    if v is None:
        return ('none',)
    if isinstance(v, tuple):
        return ('seq', pyval_ast(v[0])) if v else ('emptyseq',)
    if isinstance(v, list):  # same kind as the tuple, but unhashable (finding C07-F4)
        return ('list', pyval_ast(v[0])) if v else ('emptyseq',)
    raise ValueError(f'value outside the modelled alphabet: {v!r}')


def pyval_of(ast):
    """wire form -> python value"""
    tag = ast[0]
    if tag == 'bool':
        return bool(ast[1]) if not isinstance(ast[1], str) else ast[1] == 'true'
    if tag == 'int':
        return int(ast[1])
    if tag == 'float':
        return float(ast[1])
    if tag == 'str':
        return str(ast[1])
    if tag == 'decimal':
        return decimal.Decimal(ast[1])
    if tag == 'date':
        return datetime.date.fromisoformat(ast[1])
    if tag == 'datetime':
        return datetime.datetime.fromisoformat(ast[1])
    if tag == 'none':
        return None
    if tag == 'emptyseq':
        return ()
    if tag == 'seq':
        return (pyval_of(ast[1]),)
    if tag == 'list':
        return [pyval_of(ast[1])]
    raise ValueError(f'bad python value {ast!r}')


def pyval_lean(v) -> str:
    a = pyval_ast(v)
    tag = a[0]
    if tag == 'bool':
        return f'.bool {"true" if a[1] else "false"}'
    if tag == 'int':
        return f'.int ({a[1]})'
    if tag in ('float', 'str', 'decimal', 'date', 'datetime'):
        return f'.{tag} "{a[1]}"'
    if tag == 'none':
        return '.none'
    if tag == 'emptyseq':
        return '.emptySeq'
    return '.seq (' + pyval_lean(v[0]) + ')'


def model_py(a) -> tuple:
    """wire form for the Lean driver: a list is the sequence it is (the model has no notion of hashability)"""
    if a[0] in ('seq', 'list'):
        return ('seq', model_py(a[1]))
    return a


def model_ast(ast):
    if isinstance(ast, tuple):
        if len(ast) == 2 and ast[0] == 'py' and isinstance(ast[1], tuple):
            return ('py', model_py(ast[1]))
        return tuple(model_ast(a) for a in ast)
    return ast


def has_list_literal(ast) -> bool:
    if isinstance(ast, tuple):
        if ast and ast[0] == 'list' and len(ast) == 2:
            return True
        return any(has_list_literal(a) for a in ast)
    return False


#: the documented kind of a python value by its type (docs/dsl/schema.rst, kind.py docstrings): the most specific type
PY_KIND = {'bool': 'boolean', 'int': 'integer', 'float': 'float', 'str': 'string', 'decimal': 'decimal', 'date': 'date',
           'datetime': 'timestamp'}


def lit_of(v) -> tuple:
    """the literal of a python value in the AST: the four plain types in the form of the shared AST (ONE spelling per
    literal — the oracle compares ASTs structurally), every other value as ('lit', ('py', PY))"""
    a = pyval_ast(v)
    return ('lit', a) if a[0] in ('bool', 'int', 'float', 'str') else ('lit', ('py', a))


def py_kind(a):
    """documented kind of a python value in wire form; None where it has none"""
    if a[0] in PY_KIND:
        return PY_KIND[a[0]]
    if a[0] in ('seq', 'list'):
        inner = py_kind(a[1])
        return None if inner is None else ('array', inner)
    return None


def lit_kind(lit):
    """documented kind of a literal of the AST: the four plain forms or ('py', PY)"""
    if lit[0] == 'py':
        return py_kind(lit[1])
    return PY_KIND[lit[0]]


def py_repr(a) -> str:
    """the tagged repr the Lean model keeps different values apart by (`PyVal.repr`)"""
    tag = a[0]
    if tag == 'bool':
        return 'True' if a[1] in (True, 'true') else 'False'
    if tag in ('int', 'float', 'str'):
        return str(a[1])
    if tag == 'decimal':
        return 'Decimal:' + a[1]
    if tag in ('date', 'datetime'):
        return tag + ':' + a[1]
    if tag == 'none':
        return 'None'
    if tag == 'emptyseq':
        return '[]'
    return '[' + py_repr(a[1]) + ',…]'  # ('seq', x) and ('list', x)


def _kind_lean(k) -> str:
    if isinstance(k, str):
        return '.' + k
    if k[0] == 'array':
        return '(.array ' + _kind_lean(k[1]) + ')'
    if k[0] == 'map':
        return '(.map ' + _kind_lean(k[1]) + ' ' + _kind_lean(k[2]) + ')'
    raise ValueError(k)

# ---- the documented grammar (independent oracle) ----------------------------------------------------------------
NUMERIC = frozenset({'integer', 'float', 'decimal'})
DATELIKE = frozenset({'date', 'timestamp'})
#: kind.__rank__ as documented in kind.py ("relative size")
RANK = {'boolean': 0, 'integer': 1, 'float': 2, 'decimal': 1, 'string': 1, 'date': 2, 'timestamp': 1}
COMPARISON2 = frozenset({'lt', 'le', 'gt', 'ge', 'eq', 'ne'})
COMPARISON1 = frozenset({'isnull', 'notnull'})
LOGICAL = frozenset({'and', 'or', 'not'})
AGGREGATE = frozenset({'count', 'avg', 'max', 'min', 'sum'})
ARITHMETIC = frozenset({'add', 'sub', 'mul', 'div', 'mod', 'abs', 'avg', 'max', 'min', 'sum', 'ceil', 'floor'})
INTEGER_VALUED = frozenset({'ceil', 'floor', 'count', 'year', 'rownumber'})
ARITY = g.ARITY


def rank(kind) -> int:
    return RANK[kind] if isinstance(kind, str) else len(kind) - 1


class Spec:
    """The documented rules evaluated on the AST alone.

    `collapse=True` emulates the dictionary collapse of equal names in `Source.schema` (only used to *attribute* a
    disagreement to the known duplicate-name defect, never to decide one)."""

    def __init__(self, collapse: bool = False):
        self.collapse = collapse
        self.norm_source = functools.lru_cache(maxsize=None)(self._norm_source)
        self.outs = functools.lru_cache(maxsize=None)(self._outs)
        self.sig = functools.lru_cache(maxsize=None)(self._sig)
        self.kind = functools.lru_cache(maxsize=None)(self._kind)

    # -- what a script denotes: `x.reference(a).reference(b)` is a reference of x; `f.alias(a).alias(b)` an alias of f;
    #    a set combines *statements* (a bare origin stands for the query selecting everything from it)
    def _norm_source(self, s):
        tag = s[0]
        if tag == 'table':
            return s
        if tag == 'ref':
            inner = self.norm_source(s[1])
            return ('ref', inner[1] if inner[0] == 'ref' else inner, s[2])
        if tag == 'join':
            return ('join', self.norm_source(s[1]), self.norm_source(s[2]), s[3], None if s[4] is None else self.norm_feature(s[4]))
        if tag == 'set':
            def stmt(x):
                x = self.norm_source(x)
                return x if x[0] in ('query', 'set') else query(x)
            return ('set', stmt(s[1]), stmt(s[2]), s[3])
        _, src, sel, pre, grp, post, order, rows = s
        nf = self.norm_feature
        return ('query', self.norm_source(src), tuple(nf(f) for f in sel), None if pre is None else nf(pre),
                tuple(nf(f) for f in grp), None if post is None else nf(post),
                tuple(('ord', nf(o[1]), o[2]) for o in order), rows)

    def norm_feature(self, f):
        tag = f[0]
        if tag == 'lit':
            return f
        if tag == 'elem':
            return ('elem', self.norm_source(f[1]), f[2])
        if tag == 'alias':
            inner = self.norm_feature(f[1])
            return ('alias', inner[1] if inner[0] == 'alias' else inner, f[2])
        if tag == 'cast':
            return ('cast', self.norm_feature(f[1]), f[2])
        if tag == 'window':
            return ('window', f[1] if f[1] == ROWNUMBER else self.norm_feature(f[1]), tuple(self.norm_feature(p) for p in f[2]),
                    tuple(('ord', self.norm_feature(o[1]), o[2]) for o in f[3]))
        return ('expr', f[1]) + tuple(self.norm_feature(a) for a in f[2:])

    # -- sources
    @staticmethod
    def name(f) -> typing.Optional[str]:
        return f[2] if f[0] in ('alias', 'elem') else None

    def _outs(self, s) -> tuple:
        """output features of a (normalised) source"""
        tag = s[0]
        if tag == 'table':
            return tuple(('elem', s, n) for n, _ in s[2])
        if tag == 'ref':
            return tuple(('elem', s, self.name(f)) for f in self.outs(s[1]) if self.name(f) is not None)
        if tag in ('join', 'set'):
            return self.outs(s[1]) + self.outs(s[2])
        return s[2] if s[2] else self.outs(s[1])

    def avail(self, s) -> frozenset:
        out = set()
        for f in self.outs(s):
            out |= self.elements(f)
        return frozenset(out)

    def _sig(self, s) -> tuple:
        """names and kinds of the output features in order (a set: those of its left operand)"""
        tag = s[0]
        if tag == 'table':
            return tuple(s[2])
        if tag == 'ref':
            return self.sig(s[1])
        if tag == 'join':
            return self.sig(s[1]) + self.sig(s[2])
        if tag == 'set':
            return self.sig(s[1]) if not self.collapse else self.sig(s[1]) + self.sig(s[2])
        if s[2]:
            return tuple((self.name(f), self.kind(f)) for f in s[2])
        return self.sig(s[1])

    @staticmethod
    def dictify(sig) -> tuple:
        d = {}
        for n, k in sig:
            d[n] = k
        return tuple(d.items())

    def schema(self, s) -> tuple:
        return self.dictify(self.sig(s)) if self.collapse else self.sig(s)

    # -- features
    def elements(self, f) -> frozenset:
        tag = f[0]
        if tag == 'elem':
            return frozenset({f})
        if tag in ('alias', 'cast'):
            return self.elements(f[1])
        if tag == 'expr':
            out = set()
            for a in f[2:]:
                out |= self.elements(a)
            return frozenset(out)
        return frozenset()  # literal; a window specification is not entered by the documented visitor

    def has(self, f, what: str) -> bool:
        tag = f[0]
        if tag == 'window':
            return what == 'window'
        if tag in ('alias', 'cast'):
            return self.has(f[1], what)
        if tag == 'expr':
            return (what == 'aggregate' and f[1] in AGGREGATE) or any(self.has(a, what) for a in f[2:])
        return False

    def _kind(self, f):
        tag = f[0]
        if tag == 'lit':
            return lit_kind(f[1])
        if tag == 'elem':
            found = None
            for n, k in self.sig(f[1]):
                if n == f[2]:
                    if not self.collapse:
                        return k
                    found = k
            return found
        if tag == 'alias':
            return self.kind(f[1])
        if tag == 'cast':
            return f[2]
        if tag == 'window':
            return self.kind(f[1])
        op = f[1]
        if op in COMPARISON2 or op in COMPARISON1 or op in LOGICAL:
            return 'boolean'
        if op in INTEGER_VALUED:
            return 'integer'
        kinds = [self.kind(a) for a in f[2:]]
        if not kinds or any(k is None for k in kinds):
            return None
        top = max(rank(k) for k in kinds)
        return next(k for k in kinds if rank(k) == top)

    # -- the rules
    def unknown(self, f) -> bool:
        """some element the feature is composed of names no output of its origin"""
        return any(e[2] not in {n for n, _ in self.sig(e[1])} for e in self.elements(f))

    def feature_rules(self, f, out: list, where: str) -> None:
        tag = f[0]
        if tag == 'lit':
            if lit_kind(f[1]) is None:  # `Literal(None)`, `Literal([])`: a ValueError of python-level typing, no statement
                out.append(('not-a-script', where))
            return
        if tag == 'elem':
            self.source_rules(f[1], out)
            return
        if tag in ('alias', 'cast'):
            self.feature_rules(f[1], out, where)
            return
        if tag == 'window':
            if f[1] != ROWNUMBER:
                self.feature_rules(f[1], out, where)
            for p in f[2]:
                self.feature_rules(p, out, where)
            for o in f[3]:
                self.feature_rules(o[1], out, where)
            return
        op, args = f[1], f[2:]
        for a in args:
            self.feature_rules(a, out, where)
        if op == 'rownumber' or len(args) != ARITY[op]:
            out.append(('not-a-script', where))
            return
        if any(a[0] == 'alias' for a in args):
            out.append(('operand-not-operable', where))
        kinds = [self.kind(a) for a in args]
        missing = any(k is None for k in kinds)
        label = 'unknown-element' if missing and any(self.unknown(a) for a in args) else None
        if op in COMPARISON2 or op in COMPARISON1:
            if missing or not (all(k in NUMERIC for k in kinds) or all(a == b for a in kinds for b in kinds)):
                out.append((label or 'comparison-kinds', where))
        elif op in LOGICAL:
            if not all(k == 'boolean' for k in kinds):
                out.append((label or 'logical-kinds', where))
        elif op in ARITHMETIC:
            if not all(k in NUMERIC for k in kinds):
                out.append((label or 'arithmetic-kinds', where))
        elif op == 'year':
            if not all(k in DATELIKE for k in kinds):
                out.append((label or 'year-kind', where))

    def scope_rule(self, f, avail, out: list, where: str) -> None:
        if not self.elements(f) <= avail:
            out.append(('unknown-element' if self.unknown(f) else 'foreign-element', where))

    def predicate_rules(self, p, out: list, where: str) -> None:
        if p[0] == 'alias':
            out.append(('filter-not-operable', where))
        elif self.kind(p) != 'boolean':
            out.append(('unknown-element' if self.kind(p) is None and self.unknown(p) else 'filter-not-boolean', where))

    def source_rules(self, s, out: list) -> None:
        tag = s[0]
        if tag == 'table':
            return
        if tag == 'ref':
            self.source_rules(s[1], out)
            return
        if tag == 'join':
            _, l, r, kind, cond = s
            self.source_rules(l, out)
            self.source_rules(r, out)
            if cond is not None:
                self.feature_rules(cond, out, 'join')
            if (kind == 'cross') != (cond is None):
                out.append(('cross-join-condition', 'join'))
            if cond is not None:
                self.predicate_rules(cond, out, 'join')
                if self.has(cond, 'aggregate') or self.has(cond, 'window'):
                    out.append(('aggregate-in-condition', 'join'))
                self.scope_rule(cond, self.avail(l) | self.avail(r), out, 'join')
            return
        if tag == 'set':
            self.source_rules(s[1], out)
            self.source_rules(s[2], out)
            if self.schema(s[1]) != self.schema(s[2]):
                out.append(('set-schemas-differ', 'set'))
            return
        _, src, sel, pre, grp, post, order, _ = s
        self.source_rules(src, out)
        for f in sel:
            self.feature_rules(f, out, 'select')
        if pre is not None:
            self.feature_rules(pre, out, 'where')
        for f in grp:
            self.feature_rules(f, out, 'groupby')
        if post is not None:
            self.feature_rules(post, out, 'having')
        for o in order:
            self.feature_rules(o[1], out, 'orderby')
        avail = self.avail(src)
        for f in sel:
            self.scope_rule(f, avail, out, 'select')
        if pre is not None:
            self.predicate_rules(pre, out, 'where')
            self.scope_rule(pre, avail, out, 'where')
            if self.has(pre, 'aggregate') or self.has(pre, 'window'):
                out.append(('aggregate-in-condition', 'where'))
        for f in grp:
            if f[0] == 'alias':
                out.append(('grouping-not-operable', 'groupby'))
            if self.has(f, 'aggregate') or self.has(f, 'window'):
                out.append(('aggregate-in-grouping', 'groupby'))
            self.scope_rule(f, avail, out, 'groupby')
        if grp:
            for f in (sel or self.outs(src)):
                operable = f[1] if f[0] == 'alias' else f
                if operable not in grp and not self.has(operable, 'aggregate'):
                    out.append(('non-aggregate-outside-grouping', 'select'))
                    break
        if post is not None:
            self.predicate_rules(post, out, 'having')
            self.scope_rule(post, avail, out, 'having')
            if self.has(post, 'window'):
                out.append(('window-in-having', 'having'))
        for o in order:
            if o[1][0] == 'alias':
                out.append(('ordering-not-operable', 'orderby'))
            self.scope_rule(o[1], avail, out, 'orderby')

    def violations(self, ast) -> list:
        """[(rule, clause)] — every documented rule the statement breaks (empty: conforming)"""
        out: list = []
        self.source_rules(self.norm_source(ast), out)
        return out

    def expected_schema(self, ast) -> tuple:
        return self.schema(self.norm_source(ast))


def sources_in(ast):
    """every source node of an AST, also inside element origins"""
    if isinstance(ast, tuple) and ast:
        if ast[0] in ('table', 'ref', 'join', 'set', 'query') and len(ast) >= 3:
            yield ast
        for a in ast:
            yield from sources_in(a)


def elements_in(ast):
    if isinstance(ast, tuple) and ast:
        if ast[0] == 'elem' and len(ast) == 3:
            yield ast
        for a in ast:
            yield from elements_in(a)


# ---- the implementation ------------------------------------------------------------------------------------------
class Builder(g.Builder):
    """dslgen.Builder + the join kind handed over as a plain string (`typing.Union[Join.Kind, str]`) + literals of any
    python value (`('lit', ('py', PY))`)."""

    def __init__(self, via='chain', ops='operator', elem='getitem', kindstr=False):
        super().__init__(via=via, ops=ops, elem=elem)
        self.kindstr = kindstr

    @staticmethod
    def value(lit):
        if lit[0] == 'py':
            return pyval_of(lit[1])
        return g.Builder.value(lit)

    def source(self, ast):
        from forml.io import dsl

        if ast[0] == 'join':
            _, l, r, kind, cond = ast
            left, right = self.source(l), self.source(r)
            condition = None if cond is None else self.feature(cond, toplevel=True)
            if self.via == 'chain' and not self.kindstr and (kind == 'cross') == (condition is None) and isinstance(left, dsl.Origin):
                if kind == 'cross':
                    return left.cross_join(right)
                return getattr(left, f'{kind}_join')(right, condition)
            return dsl.Join(left, right, kind if self.kindstr else dsl.Join.Kind(kind), condition)
        return super().source(ast)


VARIANTS = tuple(itertools.product(('ctor', 'chain'), ('class', 'operator'), ('ctor', 'getitem'), (False, True)))
EXC = {'GrammarError': 'grammar', 'KeyError': 'lookup', 'RecursionError': 'recursion', 'TypeError': 'illtyped', 'ValueError': 'illtyped',
       'AttributeError': 'illtyped'}


def to_ast7(obj):
    """dslgen.to_ast + literals of any python value.  A literal is read back *with the kind the real object carries*:
    the four plain types as `('lit', …)` when that kind is the documented one (else, like every other value, as the cast
    of its repr to the kind it has — which is how the Lean model represents such literals), so a wrong `Literal.kind`
    shows in the stored structure."""
    from forml.io import dsl
    from forml.io.dsl import function

    if isinstance(obj, dsl.Literal):
        a = pyval_ast(obj.value)
        kind = g.kind_ast(obj.kind)
        if a[0] in ('bool', 'int', 'float', 'str') and kind == PY_KIND[a[0]]:
            return ('lit', g.lit_ast(obj.value))
        return ('cast', ('lit', ('str', py_repr(a))), kind)
    if isinstance(obj, (dsl.Any, dsl.Table)):
        return g.to_ast(obj)
    if isinstance(obj, dsl.Reference):
        return ('ref', to_ast7(obj.instance), obj.name)
    if isinstance(obj, dsl.Join):
        return ('join', to_ast7(obj.left), to_ast7(obj.right), obj.kind.value, None if obj.condition is None else to_ast7(obj.condition))
    if isinstance(obj, dsl.Set):
        return ('set', to_ast7(obj.left), to_ast7(obj.right), obj.kind.value)
    if isinstance(obj, dsl.Query):
        return ('query', to_ast7(obj.source), tuple(to_ast7(f) for f in obj.selection),
                None if obj.prefilter is None else to_ast7(obj.prefilter), tuple(to_ast7(f) for f in obj.grouping),
                None if obj.postfilter is None else to_ast7(obj.postfilter), tuple(to_ast7(o) for o in obj.ordering),
                None if obj.rows is None else ('rows', obj.rows.count, obj.rows.offset))
    if isinstance(obj, dsl.Ordering):
        return ('ord', to_ast7(obj.feature), 'asc' if obj.direction is dsl.Ordering.Direction.ASCENDING else 'desc')
    if isinstance(obj, dsl.Aliased):
        return ('alias', to_ast7(obj.operable), obj.name)
    if isinstance(obj, dsl.Element):
        return ('elem', to_ast7(obj.origin), obj.name)
    if isinstance(obj, function.Cast):
        return ('cast', to_ast7(obj.value), g.kind_ast(obj.kind))
    if isinstance(obj, dsl.Window):
        fn = ('expr', 'rownumber') if isinstance(obj.function, function.RowNumber) else to_ast7(obj.function)
        return ('window', fn, tuple(to_ast7(p) for p in obj.partition), tuple(to_ast7(o) for o in tuple(obj.ordering)))
    if isinstance(obj, dsl.Feature) and type(obj).__name__ in g.CLASS_OP:
        return ('expr', g.CLASS_OP[type(obj).__name__]) + tuple(to_ast7(a) for a in obj)
    return g.to_ast(obj)


def _observe(build) -> dict:
    """run `build()` on the real code; {'outcome': 'ok'|'error', ...}.  Exceptions of the code under test are behaviour."""
    out: dict = {}
    try:
        obj = build()
    except RecursionError:
        return {'outcome': 'error', 'cls': 'RecursionError', 'err': 'recursion'}
    except Exception as e:  # pylint: disable=broad-except
        return {'outcome': 'error', 'cls': type(e).__name__, 'err': EXC.get(type(e).__name__, 'other:' + type(e).__name__),
                'msg': str(e)[:160]}
    out['outcome'] = 'ok'
    try:
        out['stored'] = to_ast7(obj)
    except Exception as e:  # pylint: disable=broad-except
        out['stored'] = f'unreadable:{type(e).__name__}'
    try:
        out['schema'] = ['ok', [(f.name, g.kind_ast(f.kind)) for f in obj.schema]]
    except RecursionError:
        out['schema'] = ['error', 'recursion']
    except Exception as e:  # pylint: disable=broad-except
        out['schema'] = ['error', EXC.get(type(e).__name__, 'other:' + type(e).__name__)]
        out['schema_msg'] = str(e)[:120]
    return out


def run_api(case: dict) -> dict:
    """an `api` case on the real code: a chain of `Queryable` calls, or `dsl.Join` with the kind as given"""
    from forml.io import dsl

    b = Builder('ctor', 'class', 'ctor', False)
    spec = case['api']

    def direction(a):
        if a[0] == 'enum':
            return dsl.Ordering.Direction.ASCENDING if a[1] == 'asc' else dsl.Ordering.Direction.DESCENDING
        return a[1] if a[0] == 'str' else None

    def term(t):
        tag = t[0]
        if tag == 'feat':
            return b.feature(t[1], toplevel=True)
        if tag == 'dir':
            return direction(t[1])
        if tag == 'pair':
            return (b.feature(t[1], toplevel=True), direction(t[2]))
        if tag == 'ordering':
            return dsl.Ordering(b.feature(t[1], toplevel=True), direction(('enum', t[2])))
        return 42

    def build():
        if spec[0] == 'join':
            _, l, r, kind, cond = spec
            left, right = b.source(l), b.source(r)
            condition = None if cond is None else b.feature(cond, toplevel=True)
            arg = dsl.Join.Kind(kind[1]) if kind[0] == 'enum' else kind[1] if kind[0] == 'str' else None
            return dsl.Join(left, right, arg, condition)
        obj = b.source(spec[1])
        for op in spec[2:]:
            name = op[0]
            if name in ('select', 'groupby'):
                obj = getattr(obj, name)(*[b.feature(f, toplevel=True) for f in op[1:]])
            elif name in ('where', 'having'):
                obj = getattr(obj, name)(b.feature(op[1], toplevel=True))
            elif name == 'orderby':
                obj = obj.orderby(*[term(t) for t in op[1:]])
            else:
                obj = obj.limit(op[1], op[2])
        return obj

    return _observe(build)


def run_impl(case: dict) -> dict:
    """Build the candidate on the real code; {'outcome': 'ok'|'error', ...}"""
    if case.get('kind') == 'api':
        return run_api(case)
    ast, variant = case['ast'], case.get('variant', ('ctor', 'class', 'ctor', False))
    return _observe(lambda: Builder(*variant).build(ast))


def _impl_chunk(chunk: list) -> list:
    sys.setrecursionlimit(1200)
    return [run_impl(c) for c in chunk]


# ---- candidate generation ------------------------------------------------------------------------------------------
def _kind_lit(kind):
    return {'integer': lit(3), 'float': lit(2.5), 'decimal': lit(3), 'string': lit('a'), 'boolean': lit(True),
            'date': None, 'timestamp': None}.get(kind)


class Mutator:
    """Single-rule violations (and boundary-preserving variants) of a conforming statement, at every position."""

    def __init__(self, rng, spec: Spec):
        self.rng = rng
        self.spec = spec

    # -- helpers
    def columns(self, src, want=None) -> list:
        sp = self.spec
        outs = [f for f in sp.outs(sp.norm_source(src)) if f[0] == 'elem']
        return [f for f in outs if want is None or self._is(sp.kind(f), want)]

    @staticmethod
    def _is(kind, want) -> bool:
        if want == 'numeric':
            return kind in NUMERIC
        return kind == want

    def foreign(self, scope_sources: list, like=None):
        """an element that is not available from the given sources (same kind as `like` when possible)"""
        sp = self.spec
        avail = set()
        for s in scope_sources:
            avail |= sp.avail(sp.norm_source(s))
        want = None if like is None else sp.kind(sp.norm_feature(like))
        cands = []
        for t in CATALOG:
            for origin in (t, ('ref', t, 'zz')):
                for n, k in t[2]:
                    e = ('elem', origin, n)
                    if e not in avail:
                        cands.append((k == want, e))
        best = [e for same, e in cands if same] or [e for _, e in cands]
        return self.rng.choice(best)

    def numeric_leaf_paths(self, f, path=()) -> list:
        """paths of numeric operands inside a feature (where an aggregate / window can be planted)"""
        sp = self.spec
        out = []
        if f[0] in ('elem', 'lit') and sp.kind(sp.norm_feature(f)) in NUMERIC:
            out.append(path)
        if f[0] == 'expr':
            for i, a in enumerate(f[2:], start=2):
                out.extend(self.numeric_leaf_paths(a, path + (i,)))
        if f[0] in ('alias', 'cast'):
            out.extend(self.numeric_leaf_paths(f[1], path + (1,)))
        return out

    def element_paths(self, f, path=()) -> list:
        out = []
        if f[0] == 'elem':
            out.append(path)
        elif f[0] == 'expr':
            for i, a in enumerate(f[2:], start=2):
                out.extend(self.element_paths(a, path + (i,)))
        elif f[0] in ('alias', 'cast'):
            out.extend(self.element_paths(f[1], path + (1,)))
        return out

    def expr_paths(self, f, path=()) -> list:
        out = []
        if f[0] == 'expr':
            out.append(path)
            for i, a in enumerate(f[2:], start=2):
                out.extend(self.expr_paths(a, path + (i,)))
        elif f[0] in ('alias', 'cast'):
            out.extend(self.expr_paths(f[1], path + (1,)))
        return out

    def plant(self, f, what: str, src):
        """put an aggregate / window around a numeric operand of `f` (or and-combine one when there is none)"""
        paths = self.numeric_leaf_paths(f)
        cols = self.columns(src, 'numeric') or self.columns(src)
        if what == 'aggregate':
            wrap = lambda x: ('expr', self.rng.choice(('sum', 'max', 'min', 'avg')), x)  # noqa: E731
        else:
            wrap = lambda x: ('window', ('expr', 'sum', x), tuple(cols[:1]), ())  # noqa: E731
        if paths:
            p = self.rng.choice(paths)
            return g.replace(f, p, wrap(g.get(f, p)))
        if not cols:
            return None
        extra = ('expr', 'gt', wrap(cols[0]) if self.spec.kind(self.spec.norm_feature(cols[0])) in NUMERIC else
                 ('expr', 'count', cols[0]) if what == 'aggregate' else ('window', ROWNUMBER, tuple(cols[:1]), ()), lit(1))
        if self.spec.kind(self.spec.norm_feature(f)) == 'boolean' and f[0] != 'alias':
            return ('expr', 'and', f, extra)
        return extra

    # -- feature-local mutations (operand kinds), anywhere in the tree
    def operand_mutations(self, ast) -> list:
        out = []
        sp = self.spec
        for path, sort, node in g.positions(ast):
            if sort != 'feature' or node[0] != 'expr' or node[1] == 'rownumber':
                continue
            op, args = node[1], node[2:]
            i = self.rng.randrange(len(args)) + 2
            kinds = [sp.kind(sp.norm_feature(a)) for a in args]
            if op in COMPARISON2:
                k = kinds[i - 2]
                other = lit('zz') if k != 'string' else lit(7)
                out.append(('comparison-kinds', g.replace(ast, path + (i,), other)))
                if k in NUMERIC:  # boundary: another numeric kind is compatible
                    out.append(('edge:comparison-numeric-mix', g.replace(ast, path + (i,), lit(1.5) if k != 'float' else lit(2))))
            elif op in COMPARISON1:
                out.append(('edge:isnull-any-kind', g.replace(ast, path + (2,), lit('zz'))))
            elif op in LOGICAL:
                out.append(('logical-kinds', g.replace(ast, path + (i,), self.rng.choice((lit(1), lit('t'))))))
            elif op in ARITHMETIC:
                out.append(('arithmetic-kinds', g.replace(ast, path + (i,), self.rng.choice((lit('zz'), lit(True))))))
            elif op == 'year':
                out.append(('year-kind', g.replace(ast, path + (2,), lit(2000))))
            out.append(('operand-not-operable', g.replace(ast, path + (i,), ('alias', node[i], 'op'))))
        return out

    # -- clause-level mutations of every query / join / set node
    def clause_mutations(self, ast) -> list:
        out = []
        sp = self.spec
        rng = self.rng
        for path, sort, node in g.positions(ast):
            if sort != 'source':
                continue
            tag = node[0]
            if tag == 'join':
                _, l, r, kind, cond = node
                if cond is None:
                    a, b = self.columns(l, 'integer'), self.columns(r, 'integer')
                    if a and b:
                        out.append(('cross-join-condition', g.replace(ast, path + (4,), ('expr', 'eq', a[0], b[0]))))
                    out.append(('cross-join-condition', g.replace(ast, path + (3,), rng.choice(g.JOIN_KINDS[:4]))))
                else:
                    out.append(('cross-join-condition', g.replace(ast, path + (4,), None)))
                    out.append(('cross-join-condition', g.replace(ast, path + (3,), 'cross')))
                    out.extend(self._condition_mutations(ast, path + (4,), cond, [l, r], 'join', l))
            elif tag == 'set':
                out.extend(self._set_mutations(ast, path, node))
            elif tag == 'query':
                out.extend(self._query_mutations(ast, path, node))
        return out

    def _condition_mutations(self, ast, path, cond, scope, clause, src) -> list:
        out = []
        rng = self.rng
        nums = [c for s in scope for c in self.columns(s, 'numeric')]
        anycols = [c for s in scope for c in self.columns(s)]
        for p in self.element_paths(cond):
            out.append((f'foreign-element:{clause}', g.replace(ast, path + p, self.foreign(scope, g.get(cond, p)))))
            out.append((f'unknown-element:{clause}', g.replace(ast, path + p + (2,), 'nope')))
        if nums:
            out.append((f'filter-not-boolean:{clause}', g.replace(ast, path, ('expr', 'add', rng.choice(nums), lit(1)))))
            out.append((f'filter-not-boolean:{clause}', g.replace(ast, path, rng.choice(nums))))
        out.append((f'filter-not-boolean:{clause}', g.replace(ast, path, rng.choice((lit(1), lit('t'))))))
        out.append((f'edge:literal-predicate:{clause}', g.replace(ast, path, lit(True))))
        out.append((f'filter-not-operable:{clause}', g.replace(ast, path, ('alias', cond, 'p'))))
        planted = self.plant(cond, 'aggregate', src)
        if planted is not None and clause != 'having':
            out.append((f'aggregate-in-condition:{clause}', g.replace(ast, path, planted)))
        elif planted is not None:
            out.append((f'edge:aggregate-in-having', g.replace(ast, path, planted)))
        planted = self.plant(cond, 'window', src)
        if planted is not None:
            out.append((f'window-in-condition:{clause}', g.replace(ast, path, planted)))
        if anycols:
            out.append((f'foreign-element:{clause}', g.replace(ast, path, ('expr', 'notnull', self.foreign(scope)))))
            out.append((f'unknown-element:{clause}', g.replace(ast, path, ('expr', 'notnull', ('elem', rng.choice(anycols)[1], 'nope')))))
            out.append((f'unknown-element:{clause}', g.replace(ast, path, ('elem', rng.choice(anycols)[1], 'nope'))))
        return out

    def _set_mutations(self, ast, path, node) -> list:
        out = []
        _, l, r, _ = node
        if r[0] == 'query' and r[2]:
            sel = r[2]
            if len(sel) > 1:
                out.append(('set-schemas-differ:permuted', g.replace(ast, path + (2, 2), tuple(reversed(sel)))))
                out.append(('set-schemas-differ:dropped', g.replace(ast, path + (2, 2), sel[:-1])))
            f = sel[0]
            out.append(('set-schemas-differ:renamed', g.replace(ast, path + (2, 2, 0), ('alias', f[1] if f[0] == 'alias' else f, 'renamed'))))
            name = Spec.name(f)
            if name is not None:
                base = f[1] if f[0] == 'alias' else f
                kind = self.spec.kind(self.spec.norm_feature(base))
                out.append(('set-schemas-differ:kind', g.replace(ast, path + (2, 2, 0), ('alias', ('cast', base, 'string' if kind != 'string' else 'integer'), name))))
                out.append(('edge:set-same-name-kind', g.replace(ast, path + (2, 2, 0), ('alias', ('cast', base, kind), name)) if isinstance(kind, str) else None))
        lsig = tuple(self.spec.sig(self.spec.norm_source(l)))
        out.append(('set-schemas-differ:other-table', g.replace(ast, path + (2,), self.rng.choice([t for t in CATALOG if t[2] != lsig]))))
        return [(label, m) for label, m in out if m is not None]

    def _query_mutations(self, ast, path, node) -> list:
        out = []
        rng = self.rng
        sp = self.spec
        _, src, sel, pre, grp, post, order, _ = node
        scope = [src]
        cols = self.columns(src)
        nums = self.columns(src, 'numeric')
        # selection
        for i, f in enumerate(sel):
            for p in self.element_paths(f):
                out.append(('foreign-element:select', g.replace(ast, path + (2, i) + p, self.foreign(scope, g.get(f, p)))))
                out.append(('unknown-element:select', g.replace(ast, path + (2, i) + p + (2,), 'nope')))
            if f[0] != 'alias':
                out.append(('edge:alias-in-select', g.replace(ast, path + (2, i), ('alias', f, 'sel'))))
            else:
                out.append(('edge:alias-of-alias', g.replace(ast, path + (2, i), ('alias', f, 'again'))))
        out.append(('foreign-element:select', g.replace(ast, path + (2,), sel + (self.foreign(scope),))))
        if cols:
            out.append(('unknown-element:select', g.replace(ast, path + (2,), sel + (('elem', cols[0][1], 'nope'),))))
        # where
        if pre is not None:
            out.extend(self._condition_mutations(ast, path + (3,), pre, scope, 'where', src))
        elif nums:
            c = rng.choice(nums)
            good = ('expr', 'gt', c, lit(1))
            base = g.replace(ast, path + (3,), good)
            out.append(('edge:added-where', base))
            out.extend(self._condition_mutations(base, path + (3,), good, scope, 'where', src))
        # grouping
        for i, f in enumerate(grp):
            out.append(('grouping-not-operable', g.replace(ast, path + (4, i), ('alias', f, 'grp'))))
            planted = self.plant(f, 'aggregate', src)
            if planted is not None:
                out.append(('aggregate-in-grouping', g.replace(ast, path + (4, i), planted)))
            planted = self.plant(f, 'window', src)
            if planted is not None:
                out.append(('window-in-grouping', g.replace(ast, path + (4, i), planted)))
            for p in self.element_paths(f):
                out.append(('foreign-element:groupby', g.replace(ast, path + (4, i) + p, self.foreign(scope, g.get(f, p)))))
                out.append(('unknown-element:groupby', g.replace(ast, path + (4, i) + p + (2,), 'nope')))
        if grp:
            free = [c for c in cols if c not in grp]
            if free:
                c = rng.choice(free)
                out.append(('non-aggregate-outside-grouping', g.replace(ast, path + (2,), sel + (c,))))
                out.append(('non-aggregate-outside-grouping', g.replace(ast, path + (2,), sel + (('alias', c, 'free'),))))
                if sp.kind(sp.norm_feature(c)) in NUMERIC:
                    out.append(('non-aggregate-outside-grouping', g.replace(ast, path + (2,), sel + (('expr', 'add', c, lit(1)),))))
                    out.append(('edge:aggregate-nested-in-arithmetic', g.replace(ast, path + (2,), sel + (('expr', 'add', ('expr', 'sum', c), lit(1)),))))
                    out.append(('edge:aggregate-nested-aliased', g.replace(ast, path + (2,), sel + (('alias', ('expr', 'mul', lit(2), ('expr', 'max', c)), 'm'),))))
                out.append(('edge:count-outside-grouping', g.replace(ast, path + (2,), sel + (('expr', 'count', c),))))
            out.append(('non-aggregate-outside-grouping', g.replace(ast, path + (2,), sel + (lit(1),))))
            out.append(('edge:grouped-feature-aliased', g.replace(ast, path + (2,), sel + (('alias', grp[0], 'g0'),))))
            # strip one aggregate from a selected feature
            for i, f in enumerate(sel):
                for p in self.expr_paths(f):
                    e = g.get(f, p)
                    if e[1] in AGGREGATE:
                        out.append(('non-aggregate-outside-grouping:stripped', g.replace(ast, path + (2, i) + p, e[2])))
                        break
            out.append(('non-aggregate-outside-grouping:no-selection', g.replace(ast, path + (2,), ())))
        elif cols and sel:
            c = rng.choice(cols)
            out.append(('added-grouping', g.replace(ast, path + (4,), (c,))))
            everything = tuple(dict.fromkeys((f[1] if f[0] == 'alias' else f) for f in sel))
            if all(not sp.has(f, 'aggregate') and not sp.has(f, 'window') for f in everything):
                out.append(('edge:group-by-all-selected', g.replace(ast, path + (4,), everything)))
        # having
        if post is not None:
            out.extend(self._condition_mutations(ast, path + (5,), post, scope, 'having', src))
        elif nums:
            c = rng.choice(nums)
            good = ('expr', 'gt', ('expr', 'sum', c), lit(1))
            base = g.replace(ast, path + (5,), good)
            out.append(('edge:having-without-grouping', base))
            out.append(('window-in-having', g.replace(ast, path + (5,), ('expr', 'gt', ('window', ROWNUMBER, (c,), ()), lit(1)))))
            out.append(('foreign-element:having', g.replace(ast, path + (5,), ('expr', 'gt', ('expr', 'sum', self.foreign(scope, c)), lit(1)))))
        # ordering
        for i, o in enumerate(order):
            out.append(('ordering-not-operable', g.replace(ast, path + (6, i, 1), ('alias', o[1], 'ord'))))
            for p in self.element_paths(o[1]):
                out.append(('foreign-element:orderby', g.replace(ast, path + (6, i, 1) + p, self.foreign(scope, g.get(o[1], p)))))
                out.append(('unknown-element:orderby', g.replace(ast, path + (6, i, 1) + p + (2,), 'nope')))
        out.append(('foreign-element:orderby', g.replace(ast, path + (6,), order + (('ord', self.foreign(scope), 'desc'),))))
        if cols:
            out.append(('edge:added-ordering', g.replace(ast, path + (6,), order + (('ord', rng.choice(cols), 'asc'),))))
        # the query used as a source itself
        named = sel and all(Spec.name(f) is not None for f in sel) and len({Spec.name(f) for f in sel}) == len(sel)
        if named:
            r = ('ref', node, 'sub')
            out.append(('edge:reference-of-query', g.replace(ast, path, query(r, tuple(('elem', r, Spec.name(f)) for f in sel)))))
            out.append(('foreign-element:reference-of-query', g.replace(ast, path, query(r, (('elem', ('ref', node, 'other'), Spec.name(sel[0])),)))))
            out.append(('unknown-element:reference-of-query', g.replace(ast, path, query(r, (('elem', r, 'nope'),)))))
            out.append(('edge:reference-of-reference', g.replace(ast, path, query(('ref', r, 'again'), (('elem', ('ref', node, 'again'), Spec.name(sel[0])),)))))
        if sel:
            # elements of the underlying origin stay available through a query (also behind an alias)
            inner = [e for f in sel for e in sp.elements(sp.norm_feature(f))]
            if inner:
                out.append(('edge:query-of-query', g.replace(ast, path, query(node, (inner[0],)))))
            hidden = [c for c in cols if c not in inner]
            if hidden:
                out.append(('foreign-element:query-of-query', g.replace(ast, path, query(node, (hidden[0],)))))
        return out

    def literal_mutations(self, ast, limit: int = 4) -> list:
        """a literal replaced by a python value of another type — first of all by one that is equal / hashes alike (1 ->
        True, 1.0, Decimal(1)) — or by a date / datetime / Decimal / list / None: whether the statement still conforms is
        for the oracle to say"""
        out = []
        spots = [(path, node) for path, sort, node in g.positions(ast) if sort == 'feature' and node[0] == 'lit']
        for path, node in (self.rng.sample(spots, limit) if len(spots) > limit else spots):
            old = node[1][1] if node[1][0] == 'py' else node[1]
            alike = {'int': (True, 1.0, decimal.Decimal(1), False, 0.0), 'bool': (1, 0, 1.0, 0.0), 'float': (1, True, decimal.Decimal('1.5')),
                     'str': ('1', 1, datetime.date(2020, 1, 1))}.get(old[0], ())
            picks = [self.rng.choice(alike), self.rng.choice(HISTORY_VALUES)] if alike else [self.rng.choice(HISTORY_VALUES)]
            for v in picks:
                a = pyval_ast(v)
                if a != old:
                    out.append((f'literal:{old[0]}->{a[0]}', g.replace(ast, path, lit_of(v))))
        if spots and self.rng.random() < 0.2:
            path, _ = self.rng.choice(spots)
            out.append(('literal:none', g.replace(ast, path, ('lit', ('py', self.rng.choice((('none',), ('emptyseq',), ('seq', ('none',)))))))))
        return out

    def all(self, ast) -> list:
        muts = self.clause_mutations(ast) + self.operand_mutations(ast)
        seen, out = {ast}, []
        for label, m in muts:
            if m is not None and m not in seen:
                seen.add(m)
                out.append((label, m))
        return out


def corpus() -> list:
    """hand-picked boundary cases (label, ast): both sides of every rule, the interactions named in the property"""
    sid, sname, sscore, slevel, sact, sborn, ssch = (col(S, n) for n in ('id', 'name', 'score', 'level', 'active', 'born', 'school'))
    kid, kname, krank = (col(K, n) for n in ('id', 'name', 'rank'))
    gid, gtaken = col(G, 'id'), col(G, 'taken')
    cond = ('expr', 'eq', ssch, kid)
    j = ('join', S, K, 'inner', cond)
    unnamed = query(S, [('expr', 'add', sid, lit(1)), sname])
    named = query(S, [('alias', ('expr', 'add', sid, lit(1)), 'n'), sname])
    r = ('ref', named, 'r')
    ru = ('ref', unnamed, 'r')
    out = [
        ('conforming:plain', query(S, [sid, sname])),
        ('conforming:everything', query(j, [sname, ('alias', kname, 'school'), ('alias', ('expr', 'avg', sscore), 'avg')],
                                        ('expr', 'gt', slevel, lit(1)), [sname, kname], ('expr', 'gt', ('expr', 'count', sid), lit(2)),
                                        [('ord', sname, 'desc')], ('rows', 10, 0))),
        ('edge:unnamed-output', unnamed),
        ('edge:unnamed-output-literal', query(S, [lit(1)])),
        ('edge:reference-of-unnamed', query(ru, [('elem', ru, 'name')])),
        ('edge:reference-of-unnamed-all', query(ru)),
        ('edge:set-of-unnamed', ('set', unnamed, unnamed, 'union')),
        ('edge:set-of-named', ('set', named, named, 'union')),
        ('edge:reference-of-query', query(r, [('elem', r, 'n')], ('expr', 'gt', ('elem', r, 'n'), lit(1)))),
        ('edge:join-equal-names', j),
        ('edge:query-of-join-equal-names', query(j)),
        ('edge:reference-of-join-equal-names', query(('ref', j, 'j'), [('elem', ('ref', j, 'j'), 'rank')])),
        ('edge:duplicate-selection', query(S, [sid, sid])),
        ('set-schemas-differ:duplicate-selection', ('set', query(S, [sid, sid]), query(S, [sid]), 'union')),
        ('edge:set-equal-tables', ('set', K, C, 'intersection')),
        ('set-schemas-differ:tables', ('set', S, K, 'union')),
        ('set-schemas-differ:permuted', ('set', query(S, [sid, sname]), query(S, [sname, sid]), 'difference')),
        ('set-schemas-differ:same-names-other-kind', ('set', query(S, [sid]), query(G, [gid]), 'union')),
        ('edge:select-from-set', query(('set', query(S, [sid]), query(K, [kid]), 'union'), [kid])),
        ('edge:literal-predicate', query(S, [sid], lit(True))),
        ('filter-not-boolean:literal', query(S, [sid], lit(1))),
        ('edge:boolean-column-predicate', query(S, [sid], sact)),
        ('edge:having-without-grouping', query(S, [sid], None, (), ('expr', 'gt', ('expr', 'count', sid), lit(1)))),
        ('window-in-having', query(S, [sid], None, (), ('expr', 'gt', ('window', ROWNUMBER, (sid,), ()), lit(1)))),
        ('window-in-condition:where', query(S, [sid], ('expr', 'gt', ('window', ROWNUMBER, (sid,), ()), lit(1)))),
        ('edge:window-selected', query(S, [('alias', ('window', ROWNUMBER, (slevel,), (('ord', sid, 'asc'),)), 'rn')])),
        ('edge:window-aggregate-selected', query(S, [('alias', ('window', ('expr', 'sum', sscore), (slevel,), ()), 'w')])),
        ('non-aggregate-outside-grouping:window', query(S, [slevel, ('alias', ('window', ('expr', 'sum', sscore), (slevel,), ()), 'w')], None, [slevel])),
        ('edge:grouping-by-expression', query(S, [('alias', ('expr', 'year', sborn), 'y'), ('alias', ('expr', 'count', sid), 'n')], None, [('expr', 'year', sborn)])),
        ('non-aggregate-outside-grouping:expression-differs', query(S, [('alias', ('expr', 'add', slevel, lit(1)), 'l')], None, [slevel])),
        ('edge:comparison-date-date', query(S, [sid], ('expr', 'lt', sborn, sborn))),
        ('comparison-kinds:date-timestamp', query(('join', S, G, 'inner', ('expr', 'eq', sid, col(G, 'student'))), [sid], ('expr', 'lt', sborn, gtaken))),
        ('edge:year-of-timestamp', query(G, [('alias', ('expr', 'year', gtaken), 'y')])),
        ('edge:comparison-int-float', query(S, [sid], ('expr', 'ge', sid, sscore))),
        ('comparison-kinds:int-string', query(S, [sid], ('expr', 'eq', sid, sname))),
        ('comparison-kinds:bool-int', query(S, [sid], ('expr', 'eq', sact, lit(1)))),
        ('edge:cast-makes-comparable', query(S, [sid], ('expr', 'eq', ('cast', sid, 'string'), sname))),
        ('edge:cast-of-alias', query(S, [('alias', ('cast', ('alias', sid, 'x'), 'string'), 'y')])),
        ('edge:arithmetic-kind', query(S, [('alias', ('expr', 'add', sid, sscore), 'a'), ('alias', ('expr', 'add', sscore, sid), 'b'),
                                           ('alias', ('expr', 'add', sid, ('cast', sid, 'decimal')), 'c'), ('alias', ('expr', 'add', ('cast', sid, 'decimal'), sid), 'd'),
                                           ('alias', ('expr', 'ceil', sscore), 'e'), ('alias', ('expr', 'abs', sscore), 'f'), ('alias', ('expr', 'avg', sid), 'g')])),
        ('cross-join-condition:cross-with', ('join', S, K, 'cross', cond)),
        ('cross-join-condition:inner-without', ('join', S, K, 'inner', None)),
        ('edge:cross', query(('join', S, K, 'cross', None), [sid, krank])),
        ('edge:self-join-by-reference', query(('join', S, ('ref', S, 'other'), 'left', ('expr', 'eq', sid, ('elem', ('ref', S, 'other'), 'id'))),
                                              [sid, ('alias', ('elem', ('ref', S, 'other'), 'name'), 'other')])),
        ('foreign-element:self-join-without-reference-name', query(('join', S, ('ref', S, 'other'), 'left', ('expr', 'eq', sid, ('elem', ('ref', S, 'another'), 'id'))), [sid])),
        ('edge:join-with-query-side', ('join', S, query(K, [kid, krank]), 'inner', ('expr', 'eq', ssch, kid))),
        ('edge:element-of-query-origin', query(query(S, [sid]), [('elem', query(S, [sid]), 'id')])),
        ('unknown-element:comparison', query(S, [sid], ('expr', 'gt', col(S, 'nope'), lit(1)))),
        ('unknown-element:isnull', query(S, [sid], ('expr', 'isnull', col(S, 'nope')))),
        ('unknown-element:count', query(S, [('alias', ('expr', 'count', col(S, 'nope')), 'n')])),
        ('unknown-element:year', query(S, [('alias', ('expr', 'year', col(S, 'nope')), 'n')])),
        ('unknown-element:bare-filter', query(S, [sid], col(S, 'nope'))),
        ('unknown-element:join', ('join', S, K, 'inner', ('expr', 'eq', col(S, 'nope'), kid))),
        # C08: -1 and -2 hash alike, so do the two references; the foreign element passes a hash-equality subset test
        ('foreign-element:hash-collision', query(('ref', query(S, [sid], ('expr', 'gt', sid, lit(-1))), 'r'),
                                                 [('elem', ('ref', query(S, [sid], ('expr', 'gt', sid, lit(-2))), 'r'), 'id')])),
    ]
    return out


def rich_corpus() -> list:
    """literals of every python type `kind.reflect` knows, on both sides of the kind rules; sets of sets, references of sets"""
    sid, sname, sscore, slevel, sact, sborn = (col(S, n) for n in ('id', 'name', 'score', 'level', 'active', 'born'))
    gid, gtaken = col(G, 'id'), col(G, 'taken')
    day, stamp, dec = datetime.date(2020, 1, 2), datetime.datetime(2020, 1, 2, 3, 4, 5), decimal.Decimal('1.5')

    def D(v):
        return lit_of(v)

    def one(f, name='x'):
        return query(S, [('alias', f, name)])

    kid, kname, krank = (col(K, n) for n in ('id', 'name', 'rank'))
    q1, q2 = query(K, [kid, kname]), query(C, [col(C, 'id'), col(C, 'name')])
    s1 = ('set', q1, q2, 'union')
    s2 = ('set', s1, q1, 'difference')
    rs = ('ref', s1, 'u')
    return [
        ('literal:date-vs-date', query(S, [sid], ('expr', 'lt', sborn, D(day)))),
        ('comparison-kinds:date-vs-datetime-literal', query(S, [sid], ('expr', 'lt', sborn, D(stamp)))),
        ('literal:timestamp-vs-datetime', query(G, [gid], ('expr', 'ge', gtaken, D(stamp)))),
        ('comparison-kinds:timestamp-vs-date-literal', query(G, [gid], ('expr', 'ge', gtaken, D(day)))),
        ('literal:integer+decimal', one(('expr', 'add', slevel, D(dec)))),
        ('literal:decimal+integer', one(('expr', 'add', D(dec), slevel))),
        ('literal:decimal+float', one(('expr', 'mul', D(decimal.Decimal(1)), sscore))),
        ('literal:score>decimal', query(S, [sid], ('expr', 'gt', sscore, D(dec)))),
        ('literal:year-of-date', one(('expr', 'year', D(day)), 'y')),
        ('literal:year-of-datetime', one(('expr', 'year', D(stamp)), 'y')),
        ('year-kind:decimal-literal', one(('expr', 'year', D(dec)), 'y')),
        ('arithmetic-kinds:date-literal', one(('expr', 'add', slevel, D(day)))),
        ('arithmetic-kinds:bool-literal', one(('expr', 'add', slevel, D(True)))),
        ('logical-kinds:decimal-one', query(S, [sid], ('expr', 'and', ('expr', 'gt', slevel, lit(1)), D(decimal.Decimal(1))))),
        ('logical-kinds:float-one', query(S, [sid], ('expr', 'and', ('expr', 'gt', slevel, lit(1)), D(1.0)))),
        ('literal:and-true', query(S, [sid], ('expr', 'and', ('expr', 'gt', slevel, lit(1)), D(True)))),
        ('literal:active==True', query(S, [sid], ('expr', 'eq', sact, D(True)))),
        ('comparison-kinds:active==1', query(S, [sid], ('expr', 'eq', sact, D(1)))),
        ('comparison-kinds:active==1.0', query(S, [sid], ('expr', 'eq', sact, D(1.0)))),
        ('literal:level==1.0', query(S, [sid], ('expr', 'eq', slevel, D(1.0)))),
        ('comparison-kinds:level==True', query(S, [sid], ('expr', 'eq', slevel, D(True)))),
        ('filter-not-boolean:one', query(S, [sid], D(1))),
        ('filter-not-boolean:one-float', query(S, [sid], D(1.0))),
        ('filter-not-boolean:zero-decimal', query(S, [sid], D(decimal.Decimal(0)))),
        ('literal:where-false', query(S, [sid], D(False))),
        ('literal:none-selected', query(S, [D(None)])),
        ('literal:empty-tuple-compared', query(S, [sid], ('expr', 'eq', sid, D(())))),
        ('comparison-kinds:array-literal', query(S, [sid], ('expr', 'eq', sid, D((1, 2))))),
        ('literal:array==array', query(S, [sid], ('expr', 'eq', D((1,)), D((2,))))),
        ('comparison-kinds:array-int-vs-array-float', query(S, [sid], ('expr', 'eq', D((1,)), D((1.5,))))),
        ('comparison-kinds:array-int-vs-array-bool', query(S, [sid], ('expr', 'eq', D((1,)), D((True,))))),
        ('literal:list==list', query(S, [sid], ('expr', 'eq', D([1]), D([2])))),
        ('literal:selected', query(S, [('alias', D(day), 'd'), ('alias', D(dec), 'm'), ('alias', D(stamp), 't'), ('alias', D((1.5,)), 'a'),
                                       ('alias', D(True), 'b'), ('alias', D(1), 'i'), ('alias', D(1.0), 'f')])),
        ('literal:grouped', query(S, [sname, ('alias', ('expr', 'add', ('expr', 'count', sid), D(decimal.Decimal(1))), 'n')], None, [sname],
                                  ('expr', 'gt', ('expr', 'sum', sscore), D(dec)))),
        ('edge:set-of-sets', s2),
        ('edge:select-from-set-of-sets', query(s2, [kid])),
        ('set-schemas-differ:set-vs-wider-query', ('set', s1, query(K, [kid, kname, krank]), 'union')),
        ('set-schemas-differ:set-vs-table', ('set', s1, K, 'intersection')),
        ('edge:reference-of-set', query(rs)),
        ('edge:join-with-reference-of-query', ('join', K, ('ref', q2, 'c'), 'inner', ('expr', 'eq', kid, ('elem', ('ref', q2, 'c'), 'id')))),
        ('foreign-element:join-with-reference-of-query', ('join', K, ('ref', q2, 'c'), 'inner', ('expr', 'eq', kid, ('elem', ('ref', q2, 'd'), 'id')))),
        ('edge:reference-of-reference-of-query', query(('ref', ('ref', q1, 'a'), 'b'), [('elem', ('ref', q1, 'b'), 'name')])),
        ('foreign-element:inner-reference-name', query(('ref', ('ref', q1, 'a'), 'b'), [('elem', ('ref', q1, 'a'), 'name')])),
        ('edge:window-over-aggregate-of-window', query(S, [('alias', ('window', ('expr', 'sum', ('window', ROWNUMBER, (sid,), ())), (sname,), (('ord', sid, 'desc'),)), 'w')])),
        ('edge:aggregate-of-aggregate', query(S, [('alias', ('expr', 'sum', ('expr', 'max', sscore)), 'm')])),
        ('aggregate-in-condition:deep', query(S, [sid], ('expr', 'gt', ('expr', 'mul', ('expr', 'abs', ('expr', 'add', ('expr', 'sum', sscore), lit(1))), lit(2)), lit(1)))),
        ('window-in-condition:deep', query(S, [sid], ('expr', 'gt', ('expr', 'mul', ('expr', 'abs', ('expr', 'add', ('window', ('expr', 'sum', sscore), (sid,), ()), lit(1))), lit(2)), lit(1)))),
        ('window-in-having:deep', query(S, [sid], None, (), ('expr', 'gt', ('cast', ('expr', 'abs', ('window', ROWNUMBER, (sid,), ())), 'float'), lit(1)))),
        ('aggregate-in-grouping:deep', query(S, [sid], None, [('expr', 'add', ('cast', ('expr', 'max', slevel), 'integer'), lit(1))])),
        ('edge:rows-negative', query(S, [sid], None, (), None, (), ('rows', -5, -1))),
        ('edge:rows-zero', query(S, [sid], None, (), None, (), ('rows', 0, 0))),
    ]


class Small:
    """Statements over a reduced alphabet (two tables, ~20 features): every clause takes every pool item."""

    A = ('table', 'A', (('a', 'integer'), ('b', 'string')))
    B = ('table', 'B', (('a', 'integer'), ('c', 'float')))

    def __init__(self):
        A, B = self.A, self.B
        a, b, ba, bc = col(A, 'a'), col(A, 'b'), col(B, 'a'), col(B, 'c')
        self.sources = [A, ('ref', A, 'r'), ('join', A, B, 'inner', ('expr', 'eq', a, ba)), ('join', A, B, 'cross', None),
                        query(A, [a, b]), query(A, [('alias', ('expr', 'add', a, lit(1)), 'x')]),
                        ('set', query(A, [a]), query(B, [ba]), 'union'), ('ref', query(A, [a, b]), 'q')]
        self.pool = [a, b, bc, ('elem', ('ref', A, 'r'), 'a'), lit(1), lit(True), ('expr', 'add', a, lit(1)), ('expr', 'gt', a, lit(1)),
                     ('expr', 'gt', b, lit(1)), ('expr', 'eq', b, lit('x')), ('expr', 'sum', a), ('expr', 'count', b),
                     ('expr', 'gt', ('expr', 'sum', a), lit(1)), ('alias', a, 'x'), ('alias', ('expr', 'sum', a), 's'),
                     ('expr', 'and', ('expr', 'gt', a, lit(1)), lit(True)), ('expr', 'and', a, lit(True)),
                     ('expr', 'gt', ('window', ROWNUMBER, (a,), ()), lit(1)), ('alias', ('expr', 'gt', a, lit(1)), 'p'),
                     ('expr', 'add', ('expr', 'max', a), lit(1)), ('expr', 'gt', bc, lit(1)), ('cast', a, 'string')]

    def tables(self):
        return (self.A, self.B)

    def single_clause(self) -> list:
        out = []
        for s in self.sources:
            for f in self.pool:
                out.append(('small:select', query(s, [f])))
                out.append(('small:where', query(s, (), f)))
                out.append(('small:groupby', query(s, (), None, [f])))
                out.append(('small:having', query(s, (), None, (), f)))
                out.append(('small:orderby', query(s, (), None, (), None, [('ord', f, 'asc')])))
        for f in self.pool:
            for kind in ('inner', 'cross', 'full'):
                out.append(('small:join', ('join', self.A, self.B, kind, f)))
        for x in self.sources:
            for y in self.sources:
                out.append(('small:set', ('set', x, y, 'union')))
        return out

    def grouped(self) -> list:
        """selection x grouping: every pair (with grouping every selected feature outside it needs an aggregate)"""
        out = []
        for s in self.sources[:3]:
            for f in self.pool:
                for h in self.pool:
                    out.append(('small:select-groupby', query(s, [f], None, [h])))
        return out

    def random(self, rng):
        s = rng.choice(self.sources)
        pick = lambda: rng.choice(self.pool)  # noqa: E731
        sel = tuple(pick() for _ in range(rng.choice((0, 1, 1, 2))))
        pre = pick() if rng.random() < 0.4 else None
        grp = tuple(pick() for _ in range(rng.choice((0, 0, 1, 1, 2))))
        post = pick() if rng.random() < 0.3 else None
        order = tuple(('ord', pick(), rng.choice(('asc', 'desc'))) for _ in range(rng.choice((0, 0, 1))))
        return ('small:random', query(s, sel, pre, grp, post, order))


SMALL = Small()


def let_small(line) -> tuple:
    return ('let', tuple((t[1], t) for t in CATALOG + SMALL.tables()), line)


def short_small(ast):
    if isinstance(ast, tuple):
        if ast in CATALOG or ast in SMALL.tables():
            return '$' + ast[1]
        return tuple(short_small(a) for a in ast)
    return ast


# ---- the argument-handling layer: ordering terms, join kinds, chained calls, literal histories --------------------------
#: the documented spellings of a direction (docs/dsl/query/syntax.rst, <direction>)
DIR_DOC = {'asc': 'asc', 'ascending': 'asc', 'desc': 'desc', 'descending': 'desc'}
SPELL = {'asc': ('asc', 'ascending'), 'desc': ('desc', 'descending')}


def denote_terms(terms) -> tuple:
    """the documented meaning of the arguments of `orderby` (docs: `<ordering> ::= <operable> [, <direction>]`, the
    examples of `Queryable.orderby`: pairs, `Ordering` instances): ('ok' | 'unspecified', orderings) | ('not-a-script',).
    'unspecified': a spelling the documentation does not list (another case) — the property is silent about it."""
    out, i, status = [], 0, 'ok'

    def direction(a):
        if a[0] == 'enum':
            return a[1]
        if a[0] == 'str':
            if a[1] in DIR_DOC:
                return DIR_DOC[a[1]]
            if a[1].lower() in DIR_DOC:
                return ('unspecified', DIR_DOC[a[1].lower()])
        return None

    while i < len(terms):
        t = terms[i]
        if t[0] == 'feat':
            f = t[1]
            if i + 1 < len(terms) and terms[i + 1][0] == 'dir' and terms[i + 1][1][0] != 'none':
                d = direction(terms[i + 1][1])
                i += 2
            else:
                d = 'asc'
                i += 1
        elif t[0] == 'pair':
            f, d = t[1], direction(t[2])
            i += 1
        elif t[0] == 'ordering':
            f, d = t[1], t[2]
            i += 1
        else:
            return ('not-a-script',)
        if d is None:
            return ('not-a-script',)
        if isinstance(d, tuple):
            status, d = 'unspecified', d[1]
        out.append(('ord', f, d))
    return (status, tuple(out))


def denote_api(api) -> tuple:
    """(status, [statement ASTs constructed one after the other]) of an `api` case; status 'ok' | 'unspecified' |
    'not-a-script'.  A chain constructs one statement per call (`Queryable.<op>` = `Query(...)` with one clause replaced;
    repeated `where` / `having` AND-combine), a bare origin first becomes `Query(origin)`."""
    if api[0] == 'join':
        _, l, r, kind, cond = api
        if kind[0] == 'enum' or (kind[0] == 'str' and kind[1] in g.JOIN_KINDS):
            return ('ok', [('join', l, r, kind[1], cond)])
        return ('not-a-script', [])
    src, ops = api[1], api[2:]
    stmts = []
    if src[0] == 'set':
        return ('not-a-script', [])
    if src[0] == 'query':
        _, base, sel, pre, grp, post, order, rows = src
        stmts.append(src)
    else:
        base, sel, pre, grp, post, order, rows = src, (), None, (), None, (), None
        if ops:
            stmts.append(query(base))
    status = 'ok'
    for op in ops:
        name = op[0]
        if name == 'select':
            sel = tuple(op[1:])
        elif name == 'groupby':
            grp = tuple(op[1:])
        elif name in ('where', 'having'):
            old = pre if name == 'where' else post
            c = op[1]
            if old is not None:
                c = ('expr', 'and', c[1] if c[0] == 'alias' else c, old)
            if name == 'where':
                pre = c
            else:
                post = c
        elif name == 'orderby':
            d = denote_terms(op[1:])
            if d[0] == 'not-a-script':
                return ('not-a-script', stmts)
            if d[0] == 'unspecified':
                status = 'unspecified'
            order = d[1]
        else:
            if not (isinstance(op[1], int) and isinstance(op[2], int)):
                return ('not-a-script', stmts)
            rows = ('rows', op[1], op[2])
        stmts.append(query(base, sel, pre, grp, post, order, rows))
    if not stmts:
        stmts.append(src)
    return (status, stmts)


def _case_variant(rng, word: str) -> str:
    return ''.join(c.upper() if rng.random() < 0.5 else c for c in word)


def term_spellings(rng, orderings: tuple) -> list:
    """[(label, terms)] — spellings of one ordering list: all documented forms and mixtures, then ill-formed ones"""
    def enum(o):
        return ('enum', o[2])

    def doc(o):
        return ('str', rng.choice(SPELL[o[2]]))

    def anycase(o):
        return ('str', _case_variant(rng, rng.choice(SPELL[o[2]])))

    out = [('pairs-enum', tuple(('pair', o[1], enum(o)) for o in orderings)),
           ('pairs-str', tuple(('pair', o[1], doc(o)) for o in orderings)),
           ('pairs-anycase', tuple(('pair', o[1], anycase(o)) for o in orderings)),
           ('flat-enum', tuple(t for o in orderings for t in (('feat', o[1]), ('dir', enum(o))))),
           ('flat-str', tuple(t for o in orderings for t in (('feat', o[1]), ('dir', doc(o))))),
           ('instances', tuple(('ordering', o[1], o[2]) for o in orderings)),
           ('default-asc', tuple(t for o in orderings for t in ((('feat', o[1]),) if o[2] == 'asc' else (('feat', o[1]), ('dir', doc(o)))))),
           ('mixed', tuple(t for o in orderings for t in rng.choice(((('pair', o[1], enum(o)),), (('feat', o[1]), ('dir', anycase(o))),
                                                                    (('ordering', o[1], o[2]),), (('pair', o[1], doc(o)),)))))]
    if orderings:
        o = orderings[0]
        rest = tuple(('pair', x[1], enum(x)) for x in orderings[1:])
        bad = rng.choice(('bogus', 'up', '', 'asc ', 'ascend', 'as'))
        out += [('bad-direction-flat', (('feat', o[1]), ('dir', ('str', bad))) + rest),
                ('bad-direction-pair', (('pair', o[1], ('str', bad)),) + rest),
                ('pair-none', (('pair', o[1], ('none',)),) + rest),
                ('direction-first', (('dir', doc(o)), ('feat', o[1])) + rest),
                ('two-directions', (('feat', o[1]), ('dir', doc(o)), ('dir', doc(o))) + rest),
                ('instance-then-direction', (('ordering', o[1], o[2]), ('dir', doc(o))) + rest),
                ('feature-none', (('feat', o[1]), ('dir', ('none',))) + rest),
                ('junk', rest + (('junk',),)),
                ('aliased-term', (('pair', ('alias', o[1], 'o'), enum(o)),) + rest),
                ('aliased-term-flat', (('feat', ('alias', o[1], 'o')), ('dir', doc(o))) + rest),
                ('aliased-instance', (('ordering', ('alias', o[1], 'o'), o[2]),) + rest),
                ('aliased-bad-direction', (('feat', ('alias', o[1], 'o')), ('dir', ('str', 'bogus'))) + rest)]
    return out


def api_cases(rng, spec: 'Spec', mut: 'Mutator', gen, n: int) -> list:
    """`api` cases: (a) every spelling of the ordering terms of conforming queries, also with a foreign / unknown / aliased
    term at each position; (b) the calls of a statement in canonical order, in random orders (with and without groupby),
    with repeated calls; (c) join kinds in every spelling with and without condition; (d) row limits of any integers."""
    out = []

    def add(label, api):
        out.append({'kind': 'api', 'label': 'api:' + label, 'api': api})

    def ops_of(qast) -> list:
        _, _src, sel, pre, grp, post, order, rows = qast
        ops = []
        if sel:
            ops.append(('select',) + tuple(sel))
        if pre is not None:
            ops.append(('where', pre))
        if grp:
            ops.append(('groupby',) + tuple(grp))
        if post is not None:
            ops.append(('having', post))
        if order:
            ops.append(('orderby',) + tuple(('pair', o[1], ('enum', o[2])) for o in order))
        if rows is not None:
            ops.append(('limit', rows[1], rows[2]))
        return ops

    bases = []
    guard = 0
    while len(bases) < n and guard < 20 * n:
        guard += 1
        base = gen.query(rng.choice((0, 1, 1)), limit=True)
        if spec.violations(base) or base[1][0] == 'set':
            continue
        bases.append(base)
    for base in bases:
        _, src, sel, pre, grp, post, order, rows = base
        cols = mut.columns(src)
        if not order and cols:
            order = tuple(('ord', c, rng.choice(('asc', 'desc'))) for c in rng.sample(cols, min(len(cols), rng.choice((1, 2)))))
        if grp:  # ordering terms of a grouped query: any operable over the source is fine for the grammar
            pass
        head = [op for op in ops_of(base) if op[0] not in ('orderby', 'limit')]
        tail = [op for op in ops_of(base) if op[0] == 'limit']
        # (a) spellings of the ordering
        for label, terms in term_spellings(rng, order):
            add('ordering:' + label, ('chain', src) + tuple(head) + (('orderby',) + terms,) + tuple(tail))
        if order:
            o = order[0]
            rest = tuple(('pair', x[1], ('enum', x[2])) for x in order[1:])
            foreign = mut.foreign([src], o[1])
            for k, terms in enumerate((rest + (('pair', foreign, ('enum', 'desc')),), (('feat', foreign),) + rest,
                                       rest + (('ordering', foreign, 'asc'),), (('feat', foreign), ('dir', ('str', 'desc'))) + rest,
                                       rest + (('pair', ('expr', 'isnull', foreign), ('str', 'asc')),))):
                add(f'ordering:foreign-term-{k}', ('chain', src) + tuple(head) + (('orderby',) + terms,) + tuple(tail))
            if o[1][0] == 'elem':
                add('ordering:unknown-term', ('chain', src) + tuple(head) + (('orderby', ('feat', ('elem', o[1][1], 'nope'))) + rest,))
        # (b) the calls in other orders, repeated calls
        ops = head + ([('orderby',) + tuple(('pair', o[1], ('enum', o[2])) for o in order)] if order else []) + \
            [('limit', rng.choice((-5, -1, 0, 1, 10, 2 ** 40)), rng.choice((-3, 0, 5)))]
        add('chain:canonical', ('chain', src) + tuple(ops))
        add('chain:reversed', ('chain', src) + tuple(reversed(ops)))
        for _ in range(3):
            perm = list(ops)
            rng.shuffle(perm)
            add('chain:shuffled' + (':grouped' if grp else ''), ('chain', src) + tuple(perm))
        if cols:
            c = rng.choice(cols)
            extra = ('expr', 'notnull', c)
            add('chain:where-twice', ('chain', src) + tuple(ops) + (('where', extra),))
            add('chain:where-twice-aliased', ('chain', src) + tuple(ops) + (('where', ('alias', extra, 'p')),))
            add('chain:where-aliased-first', ('chain', src, ('where', ('alias', extra, 'p'))) + tuple(ops))
            add('chain:where-twice-not-boolean', ('chain', src) + tuple(ops) + (('where', c if spec.kind(spec.norm_feature(c)) != 'boolean' else lit(1)),))
            add('chain:having-twice', ('chain', src) + tuple(ops) + (('having', ('expr', 'gt', ('expr', 'count', c), lit(0))), ('having', ('expr', 'lt', ('expr', 'count', c), lit(9)))))
            add('chain:select-twice', ('chain', src) + tuple(ops) + (('select', c),))
            add('chain:select-foreign-then-select', ('chain', src, ('select', mut.foreign([src], c)), ('select', c)))
            add('chain:groupby-then-select', ('chain', src, ('groupby', c), ('select', c, ('alias', ('expr', 'count', c), 'n'))))
            add('chain:select-then-groupby', ('chain', src, ('select', c, ('alias', ('expr', 'count', c), 'n')), ('groupby', c)))
            add('chain:on-query', ('chain', query(src, (c,))) + tuple(op for op in ops if op[0] != 'select'))
    # (c) join kinds
    pairs = [(S, K, ('expr', 'eq', col(S, 'school'), col(K, 'id'))), (K, ('ref', K, 'o'), ('expr', 'lt', col(K, 'rank'), ('elem', ('ref', K, 'o'), 'rank'))),
             (S, G, ('expr', 'eq', col(S, 'id'), col(G, 'student')))]
    for l, r, cond in pairs:
        for kind in g.JOIN_KINDS:
            for arg in (('enum', kind), ('str', kind)):
                add(f'join:{arg[0]}:{kind}:with', ('join', l, r, arg, cond))
                add(f'join:{arg[0]}:{kind}:without', ('join', l, r, arg, None))
        for sp in rng.sample(JOIN_SPELLINGS[5:], 5):
            add('join:str:unknown:with', ('join', l, r, ('str', sp), cond))
            add('join:str:unknown:without', ('join', l, r, ('str', sp), None))
        add('join:none:with', ('join', l, r, ('none',), cond))
        add('join:str:cross:with-aggregate', ('join', l, r, ('str', 'inner'), ('expr', 'eq', ('expr', 'max', cond[2]), cond[3])))
    return out


# literal-sensitive statements: the verdict hangs on the kind of ONE literal
#  (-0.0 is left out on purpose: 0.0 == -0.0 with one kind, so two statements differing only there are EQUAL objects, and the
#  lru_cached accessors `statement.prefilter` … hand back the component of whichever was built first — an artefact of
#  reading back, not of construction)
HISTORY_VALUES = (True, False, 1, 0, 1.0, 0.0, 2, 2.0, decimal.Decimal(1), decimal.Decimal(0), decimal.Decimal('2.0'), 'a', '1',
                  'True', '', datetime.date(2020, 1, 1), datetime.datetime(2020, 1, 1), datetime.datetime(2020, 1, 1, 12, 30), (1,), (1.0,), (True,))


def history_templates() -> list:
    """[(name, value -> statement AST)]: conforming exactly for the values of one kind (class)"""
    sid, sname, sscore, slevel, sact, sborn = (col(S, n) for n in ('id', 'name', 'score', 'level', 'active', 'born'))

    def L(v):
        return lit_of(v)

    return [
        ('active==L', lambda v: query(S, [sid], ('expr', 'eq', sact, L(v)))),
        ('level+L', lambda v: query(S, [('alias', ('expr', 'add', slevel, L(v)), 'x')])),
        ('score>L', lambda v: query(S, [sid], ('expr', 'gt', sscore, L(v)))),
        ('name==L', lambda v: query(S, [sid], ('expr', 'eq', sname, L(v)))),
        ('cond&L', lambda v: query(S, [sid], ('expr', 'and', ('expr', 'gt', slevel, lit(1)), L(v)))),
        ('born<L', lambda v: query(S, [sid], ('expr', 'lt', sborn, L(v)))),
        ('taken<L', lambda v: query(G, [col(G, 'id')], ('expr', 'lt', col(G, 'taken'), L(v)))),
        ('where L', lambda v: query(S, [sid], L(v))),
        ('select L', lambda v: query(S, [sid, ('alias', L(v), 'x')])),
        ('L==L', lambda v: query(S, [sid], ('expr', 'eq', L(v), L(v)))),
        ('having count>L', lambda v: query(S, [sname, ('alias', ('expr', 'count', sid), 'n')], None, [sname], ('expr', 'gt', ('expr', 'count', sid), L(v)))),
    ]


def history_plan(rng, nseq: int, length: int) -> list:
    """[[step]] — sequences of `reflect` calls and statement constructions to be run each in ONE fresh process.
    Values that are equal / hash alike across types (True, 1, 1.0, Decimal(1); False, 0, 0.0, -0.0) meet in every order."""
    templates = history_templates()
    plans = []
    for i in range(nseq):
        steps = []
        values = list(HISTORY_VALUES)
        rng.shuffle(values)
        if i % 3 == 0:  # reflections first (a warm cache), then statements
            steps += [{'op': 'reflect', 'py': pyval_ast(v)} for v in values[:rng.randrange(4, 12)]]
        for _ in range(length):
            name, make = rng.choice(templates)
            v = rng.choice(values[:10]) if rng.random() < 0.7 else rng.choice(HISTORY_VALUES)
            steps.append({'op': 'stmt', 'label': f'history:{name}', 'ast': make(v), 'variant': rng.choice((('ctor', 'class', 'ctor', False), ('chain', 'operator', 'ctor', False)))})
            if rng.random() < 0.15:
                steps.append({'op': 'reflect', 'py': pyval_ast(rng.choice(HISTORY_VALUES))})
        plans.append(steps)
    return plans


def run_history(steps: list) -> list:
    """run the steps one after the other in THIS process"""
    from forml.io.dsl._struct import kind as kindmod

    out = []
    for st in steps:
        if st['op'] == 'reflect':
            try:
                out.append({'outcome': 'ok', 'kind': g.kind_ast(kindmod.reflect(pyval_of(tuplify(st['py']))))})
            except Exception as e:  # pylint: disable=broad-except
                out.append({'outcome': 'error', 'cls': type(e).__name__, 'err': EXC.get(type(e).__name__, 'other:' + type(e).__name__)})
        else:
            out.append(run_impl({'label': st.get('label', 'history'), 'ast': tuplify(st['ast']), 'variant': tuple(st['variant'])}))
    return out


_HISTORY_CHILD = ('import sys, json\n'
                  'sys.setrecursionlimit(1200)\n'
                  'sys.path[:0] = json.loads(sys.argv[1])\n'
                  'import warnings; warnings.filterwarnings("ignore")\n'
                  'import logging; logging.disable(logging.CRITICAL)\n'
                  'from props import c07\n'
                  'steps = json.load(sys.stdin)\n'
                  'json.dump(c07.run_history(steps), sys.stdout)\n')


def run_history_fresh(steps: list, timeout: int = 120) -> list:
    """run the steps in a fresh interpreter (nothing reflected or constructed before)"""
    import json
    import subprocess

    paths = [fw.REPO, os.path.dirname(os.path.dirname(os.path.abspath(__file__)))]
    res = subprocess.run([sys.executable, '-W', 'ignore', '-c', _HISTORY_CHILD, json.dumps(paths)], input=json.dumps(steps), capture_output=True,
                         text=True, timeout=timeout, check=False)
    if res.returncode != 0:
        raise fw.MachineryError(f'history child failed: {res.stderr[-400:]}')
    return json.loads(res.stdout)


# ---- the check ---------------------------------------------------------------------------------------------------------
class C07(fw.Check):
    ID = 'C07'
    LEAN_MODULES = ['ForML.Props.C07', 'ForML.Props.C07Api']
    DRIVER = 'drv_c07'
    RULE = ('candidate statements over a 4-table catalog: (a) a hand-picked corpus of boundary cases on both sides of '
            'every rule, (b) conforming statements from the typed generator of props/dslgen.py (queries over tables, '
            'references, joins, references of queries, sets; depth 1-2), (c) for each of them every single-rule violation at '
            'every applicable position (foreign / unknown element in select, where, groupby, having, orderby, join '
            'condition; non-boolean / aliased filter; aggregate or window planted in where, grouping, join condition, '
            'having; non-aggregated selection outside the grouping incl. stripped aggregates; operand kinds of every '
            'comparison / arithmetic / logical / Year node; aliased operands, grouping and ordering terms; set operands '
            'permuted, dropped, renamed, re-typed; cross join with / other joins without condition) and boundary-keeping '
            'variants (literal predicates, aggregates nested in arithmetic, alias of a grouped feature, reference of a '
            'query / of a reference, numeric kind mixes), (d) all single-clause statements and all selection x grouping '
            'pairs over a reduced alphabet (6 sources x 22 features) plus random multi-clause ones. Each candidate is '
            'built through the public API in one of 16 styles (constructor / chained, operators / classes, origin[name] / '
            'Element, join kind enum / str). A case is distinct by its AST and non-trivial when it has a clause beyond '
            'the bare source. (e) literals of every python type kind.reflect knows (bool / int / float / str / Decimal / date / '
            'datetime / list / None) on both sides of the kind rules, and every literal of a generated statement replaced by an '
            'equal / hash-alike value of another type; sets of sets, references of sets and of queries, aggregates / windows '
            'at depth 4. (f) api cases — the argument-handling layer: every spelling of the ordering terms (Ordering instances, '
            'pairs, flat, enum / documented string / any case, default direction, ill-formed ones, a foreign / unknown / '
            'aliased term at each position), the calls of a statement in canonical, reversed and random orders with and '
            'without groupby and with repeated where / having / select, join kinds as member / value / unknown string with '
            'and without condition, row limits of any integers. (g) kind.reflect on shuffled value sequences in the running '
            'process, and literal histories: sequences of reflections and literal-sensitive statements, each sequence in a fresh '
            'interpreter, judged step by step (a verdict must not depend on what was reflected or built earlier). Oracle: the '
            'documented rules evaluated on the AST (Spec) — for a chain of calls on every statement it constructs — '
            'independent of the Lean model.')
    TRUSTED = [
        'equality of features inside frozenset.issubset / set.difference is hash equality (C08); construct is '
        'proved for structural equality and run with the free hash environment; candidates whose verdict '
        'depends on a hash collision are counted, not judged',
        'the Builder of props/dslgen.py (AST -> public API calls) and to_ast (object -> AST)',
    ]
    ASSUMPTIONS = [
        'window specifications are opaque (the documented visitor does not enter them): features inside '
        'function / partition / ordering of a window are not subject to the element and aggregate rules; window frames '
        'are not modelled',
        'a candidate is a script of well-typed API calls: operand counts match the classes, reference names are non-empty, '
        'tables are real dsl.Schema classes (the two regions the theorems exclude as unreachable are checked to be refused '
        'by the real code on every run); literals are values of the nine python types of the Lean PyVal (a sequence is read '
        'through its first item, as kind.reflect does; dicts, bytes, numpy scalars are outside); a literal whose reflection '
        'raises (None, an empty list) makes the line ill-typed wherever it stands — such lines are compared only when '
        'nothing else is wrong with them',
        'a literal of a non-plain python type is represented in the shared AST as the cast of its tagged repr to the '
        'reflected kind (every grammar check reads a literal through .kind only); two sequences with the same first item '
        'are the same literal for the model',
        'spellings of a direction other than the four documented lower-case ones (other cases) and ill-formed ordering '
        'term lists are compared model vs code but not judged: the property is silent about them',
        'a repeated where / having denotes the AND of the new condition (its operable) and the old one, as documented '
        '("combine all the conditions"): S.where(c1).where(c2.alias(x)) is the statement with And(c2, c1) although '
        'S.where(c2.alias(x)) alone is refused',
        'cumulative = aggregate or window: "aggregates do not appear in where-conditions, grouping or join conditions" is '
        'read as the code documents it (series.Cumulative, "expressions involving cross-row operations")',
    ]

    # ---- tables re-extracted from the live objects ---------------------------------------------------------------------
    def gen_tables(self):
        if fw.REPO not in sys.path:
            sys.path.insert(0, fw.REPO)
        from forml.io import dsl
        from forml.io.dsl import function
        from forml.io.dsl._struct import kind as kindmod
        from forml.io.dsl._struct import series

        def b(x) -> str:
            return 'true' if x else 'false'

        lines = ['/- GENERATED by harness/props/c07.py from the live objects of forml/io/dsl/_struct/{kind,series,frame}.py and',
                 '   forml/io/dsl/function — do not edit. -/', 'import ForML.Model.Grammar', 'namespace ForML.Generated.C07', 'open ForML.Dsl', '',
                 '/-- primitive kinds: (kind, `__rank__`, `Numeric.match`, `Date.match`, `Boolean.match`) -/',
                 'def kindTable : List (Kind × Nat × Bool × Bool × Bool) := [']
        rows = []
        for name in g.PRIMITIVES:
            cls = getattr(kindmod, name.capitalize(), None)
            if cls is None:
                continue
            k = cls()
            rows.append(f'  (.{name}, {int(k.__rank__)}, {b(kindmod.Numeric.match(k))}, {b(kindmod.Date.match(k))}, {b(kindmod.Boolean.match(k))})')
        lines += [',\n'.join(rows) + ']', '',
                  '/-- names of all non-abstract primitive kinds of the module (sorted) -/',
                  'def primitiveKinds : List String := [' + ', '.join(f'"{n}"' for n in sorted(k.__name__ for k in kindmod.Primitive.__subkinds__)) + ']', '',
                  '/-- ranks of compound kinds: `Array(Integer)`, `Map(Integer, String)`, `Struct(a=.., b=.., c=..)` -/',
                  f'def compoundRanks : List Nat := [{dsl.Array(dsl.Integer()).__rank__}, {dsl.Map(dsl.Integer(), dsl.String()).__rank__}, '
                  f'{dsl.Struct(a=dsl.Integer(), b=dsl.Integer(), c=dsl.Integer()).__rank__}]', '',
                  '/-- expression classes: (op, number of operands, family of constructor checks / kind, subclass of Aggregate) -/',
                  'def opTable : List (Op × Nat × OpGroup × Bool) := [']
        rows = []
        for op in g.OPS:
            cls = getattr(function, g.OP_CLASS[op], None)
            if cls is None:
                continue
            if not issubclass(cls, series.Feature):
                group, arity = 'rownumber', 0
            else:
                arity = 2 if issubclass(cls, series.Bivariate) else 1 if issubclass(cls, series.Univariate) else 99
                own_kind = next((c.__dict__['kind'] for c in cls.__mro__ if 'kind' in c.__dict__), None)
                integer = isinstance(own_kind, kindmod.Integer)
                if issubclass(cls, series.Logical):
                    group = 'logic'
                elif issubclass(cls, series.Comparison):
                    group = 'cmp2' if arity == 2 else 'cmp1'
                elif issubclass(cls, series.Arithmetic):
                    group = 'arithInt' if integer else 'arith'
                elif '__new__' in cls.__dict__ and integer:
                    group = 'year'
                elif issubclass(cls, series.Aggregate) and integer:
                    group = 'count'
                else:
                    group = 'rownumber'
            agg = isinstance(cls, type) and issubclass(cls, series.Aggregate)
            rows.append(f'  (.{op}, {arity}, .{group}, {b(agg)})')
        lines += [',\n'.join(rows) + ']', '',
                  '/-- `Join.Kind`, `Set.Kind` values and the accepted spellings of `Ordering.Direction` -/',
                  'def joinKinds : List String := [' + ', '.join(f'"{k.value}"' for k in dsl.Join.Kind) + ']',
                  'def setKinds : List String := [' + ', '.join(f'"{k.value}"' for k in dsl.Set.Kind) + ']',
                  'def directions : List (String × String) := [' + ', '.join(
                      f'("{a}", "{dsl.Ordering.Direction(a).value}")' for a in ('asc', 'ascending', 'desc', 'descending', 'ASC', 'Desc')) + ']',
                  '', 'end ForML.Generated.C07', '']
        return {'ForML/Generated/C07Tables.lean': '\n'.join(lines), 'ForML/Generated/C07ApiTables.lean': self._api_tables()}

    @staticmethod
    def _api_tables() -> str:
        """the data-like code of the argument-handling layer, read off the live objects: `isinstance(value,
        primitive.__type__)`, `kind.reflect` on sample values, `Ordering.Direction(spelling)`, `Join.Kind(spelling)`,
        `Set.Kind` values"""
        from forml.io import dsl
        from forml.io.dsl._struct import kind as kindmod

        def b(x) -> str:
            return 'true' if x else 'false'

        def q(s: str) -> str:
            return '"' + s.replace('\\', '\\\\').replace('"', '\\"') + '"'

        prims = [getattr(kindmod, n.capitalize())() for n in g.PRIMITIVES]
        lines = ['/- GENERATED by harness/props/c07.py from the live objects of forml/io/dsl/_struct/{kind,series,frame}.py —',
                 '   do not edit. -/', 'import ForML.Model.GrammarApi', 'namespace ForML.Generated.C07Api', 'open ForML.Dsl', '',
                 '/-- the primitive kinds in the order of the columns below, with the name of their `__type__` -/',
                 'def primitiveTypes : List (Kind × String) := [' + ', '.join(
                     f'(.{n}, {q(getattr(k.__type__, "__module__", "") + "." + getattr(k.__type__, "__qualname__", str(k.__type__)))})'
                     for n, k in zip(g.PRIMITIVES, prims)) + ']', '',
                 '/-- `isinstance(sample, kind.__type__)` for a sample value of every python type against every primitive kind -/',
                 'def isaTable : List (PyTag × List Bool) := [']
        rows = []
        def isa(sample, k) -> bool:
            try:
                return isinstance(sample, k.__type__)
            except Exception:  # pylint: disable=broad-except
                return False

        for tag, sample in PY_SAMPLE.items():
            rows.append(f'  (.{tag}, [' + ', '.join(b(isa(sample, k)) for k in prims) + '])')
        lines += [',\n'.join(rows) + ']', '',
                  '/-- `kind.reflect(value)` on sample values (`none`: ValueError) -/',
                  'def reflectTable : List (PyVal × Option Kind) := [']
        rows = []
        for v in REFLECT_SAMPLES:
            try:
                k = '(some ' + _kind_lean(g.kind_ast(kindmod.reflect(v))) + ')'
            except Exception:  # pylint: disable=broad-except
                k = 'none'
            rows.append(f'  ({pyval_lean(v)}, {k})')
        lines += [',\n'.join(rows) + ']', '',
                  '/-- `Ordering.Direction(spelling)` (`none`: ValueError) -/',
                  'def directionTable : List (String × Option Dir) := [']
        rows = []
        for sp in DIRECTION_SPELLINGS:
            try:
                d = 'some .asc' if dsl.Ordering.Direction(sp) is dsl.Ordering.Direction.ASCENDING else 'some .desc'
            except Exception:  # pylint: disable=broad-except
                d = 'none'
            rows.append(f'  ({q(sp)}, {d})')
        lines += [',\n'.join(rows) + ']', '',
                  '/-- the members of `Ordering.Direction` and their values -/',
                  'def directionMembers : List (String × String) := [' + ', '.join(f'({q(m.name)}, {q(m.value)})' for m in dsl.Ordering.Direction) + ']', '',
                  '/-- `Join.Kind(spelling)` (`none`: ValueError) -/',
                  'def joinKindTable : List (String × Option JoinKind) := [']
        rows = []
        for sp in JOIN_SPELLINGS:
            try:
                k = f'some .{dsl.Join.Kind(sp).value}'
                if dsl.Join.Kind(sp).value not in g.JOIN_KINDS:
                    k = 'none'
            except Exception:  # pylint: disable=broad-except
                k = 'none'
            rows.append(f'  ({q(sp)}, {k})')
        lines += [',\n'.join(rows) + ']', '',
                  '/-- the members of `Join.Kind` / `Set.Kind` and their values -/',
                  'def joinKindMembers : List (String × String) := [' + ', '.join(f'({q(m.name)}, {q(m.value)})' for m in dsl.Join.Kind) + ']',
                  'def setKindMembers : List (String × String) := [' + ', '.join(f'({q(m.name)}, {q(m.value)})' for m in dsl.Set.Kind) + ']',
                  '', 'end ForML.Generated.C07Api', '']
        return '\n'.join(lines)

    # ---- generation ------------------------------------------------------------------------------------------------
    def candidates(self) -> list:
        r = self.rng
        spec = Spec()
        mut = Mutator(r, spec)
        gen = g.Gen(r, small_ints=True)
        out: list = []

        def add(label, ast, single=None):
            out.append({'label': label, 'ast': ast, 'variant': r.choice(VARIANTS)})

        for label, ast in corpus() + rich_corpus():
            for variant in (('ctor', 'class', 'ctor', False), ('chain', 'operator', 'ctor', True)):
                out.append({'label': label, 'ast': ast, 'variant': variant})
        nbase = self.n(70, 900)
        per_base = self.n(14, 40)
        for _ in range(nbase):
            base = gen.statement(r.choice((1, 1, 2) if self.quick else (1, 1, 2, 2, 3)))
            if spec.violations(base):
                add('generated:nonconforming', base)  # the shared generator is typed but not the judge
                continue
            add('conforming', base)
            muts = mut.all(base) + mut.literal_mutations(base)
            if len(muts) > per_base:
                muts = r.sample(muts, per_base)
            for label, m in muts:
                add(label, m)
        for label, ast in SMALL.single_clause():
            add(label, ast)
        grouped = SMALL.grouped()
        for label, ast in (grouped if not self.quick else r.sample(grouped, 300)):
            add(label, ast)
        for _ in range(self.n(400, 12000)):
            add(*SMALL.random(r))
        # builder style must not matter: the usable getitem style needs resolvable names
        for c in out:
            via, ops, elem, kindstr = c['variant']
            if elem == 'getitem' and not self._getitem_ok(c['ast'], spec):
                c['variant'] = (via, ops, 'ctor', kindstr)
        # the argument-handling layer
        out.extend(api_cases(r, spec, mut, gen, self.n(12, 150)))
        return out

    @staticmethod
    def _getitem_ok(ast, spec) -> bool:
        """`origin[name]` is the documented way to an element only for tables / references with that output"""
        for e in elements_in(ast):
            o = e[1]
            if o[0] not in ('table', 'ref'):
                return False
            try:
                sig = spec.sig(spec.norm_source(o))
            except Exception:  # pylint: disable=broad-except
                return False
            names = [n for n, _ in sig]
            if e[2] not in names or None in names or len(set(names)) != len(names):
                return False
        return True

    # ---- running ---------------------------------------------------------------------------------------------------
    def _impl_all(self, cases: list) -> list:
        if len(cases) < 64:
            return _impl_chunk(cases)
        chunks = [cases[i:i + 100] for i in range(0, len(cases), 100)]
        procs = min(12, os.cpu_count() or 2, len(chunks))
        ctx = multiprocessing.get_context('fork')
        with ctx.Pool(procs, maxtasksperchild=40) as pool:
            results = pool.map(_impl_chunk, chunks, chunksize=1)
        return [o for chunk in results for o in chunk]

    @staticmethod
    def _line(case: dict) -> str:
        if case.get('kind') == 'api':
            return sexp.dumps(let_small(('api', short_small(model_ast(case['api'])))))
        return sexp.dumps(let_small(('stmt', short_small(model_ast(case['ast'])))))

    def _model_all(self, cases: list) -> list:
        answers = self.model([self._line(c) for c in cases])
        out = []
        for a, case in zip(answers, cases):
            x = sexp.loads(a)
            if not isinstance(x, list) or x[0] not in ('stmt', 'api'):
                raise fw.MachineryError(f'model driver answered {a[:200]} to {self._line(case)[:300]}')
            res, sch = x[1], x[2]
            if x[0] == 'api':
                m = {'outcome': res[0], 'same': x[3] == 'true'}
            else:
                m = {'outcome': res[0], 'wf': x[3] == 'true', 'same': x[4] == 'true',
                     **dict(zip(('normal', 'tame', 'resolvable', 'plain'), (f == 'true' for f in x[5]))),
                     'regions': dict(zip(REGIONS, (f == 'true' for f in x[6]))) if x[6] else None}
            if res[0] == 'ok':
                m['stored'] = res[1]
                m['schema'] = [sch[0], [(n, k) for n, k in sch[1]]] if sch[0] == 'ok' else [sch[0], sch[1]]
            else:
                m['err'] = res[1]
            out.append(m)
        return out

    # ---- judging ---------------------------------------------------------------------------------------------------
    @staticmethod
    def _features_of(ast) -> dict:
        """facts about the AST used to attribute a violation to a root cause"""
        spec = Spec()
        unnamed = dup = False
        for s in sources_in(ast):
            try:
                sig = spec.sig(spec.norm_source(s))
            except Exception:  # pylint: disable=broad-except
                continue
            names = [n for n, _ in sig]
            unnamed |= None in names
            dup |= len(set(names)) != len(names)
        unknown = any(e[2] not in {n for n, _ in spec.sig(spec.norm_source(e[1]))} for e in elements_in(ast))
        return {'unnamed': unnamed, 'dup': dup, 'unknown': unknown}

    @staticmethod
    def oracle_ast(case: dict, spec: Spec):
        """(status, statement AST the documented rules are evaluated on): a statement case is its own; a chain of calls is
        judged on the first statement it constructs that breaks a rule, else on the last one"""
        if case.get('kind') != 'api':
            return 'ok', case['ast']
        status, stmts = denote_api(case['api'])
        if status == 'not-a-script' or not stmts:
            return 'not-a-script', None
        for st in stmts:
            if spec.violations(st):
                return status, st
        return status, stmts[-1]

    def judge(self, case: dict, impl: dict) -> list:
        """[(what, signature)] — the property evaluated on what the real code did with the candidate"""
        spec = Spec()
        status, ast = self.oracle_ast(case, spec)
        if status != 'ok':
            return []  # not a script of documented calls: the property is silent
        broken = spec.violations(ast)
        rules = sorted({r for r, _ in broken})
        if 'not-a-script' in rules:
            return []
        out = []
        facts = None

        def attribute(default: str) -> str:
            nonlocal facts
            facts = facts or self._features_of(ast)
            if impl.get('err') == 'recursion' or impl.get('schema', [None, None])[1] == 'recursion':
                if facts['unnamed']:
                    return 'schema-unnamed-output'
            if impl.get('err') == 'lookup' and facts['unknown']:
                return 'unknown-element-keyerror'
            if has_list_literal(ast) and 'unhashable' in (impl.get('msg', '') + str(impl.get('schema_msg', ''))):
                return 'unhashable-literal'
            if facts['dup']:
                emu = Spec(collapse=True)
                if (not emu.violations(ast)) == (impl['outcome'] == 'ok'):
                    if impl['outcome'] != 'ok' or impl['schema'][0] != 'ok' or \
                            list(tuplify(impl['schema'][1])) == list(tuplify(emu.expected_schema(ast))):
                        return 'schema-duplicate-names'
            return default

        if not broken:
            if impl['outcome'] != 'ok':
                what = f'a conforming statement is rejected with {impl["cls"]}'
                out.append((what, attribute(f'conforming-rejected:{impl["err"]}')))
            else:
                want = list(spec.expected_schema(ast))
                got = impl['schema']
                if got[0] != 'ok':
                    out.append((f'.schema of a constructed statement raises ({got[1]})', attribute(f'schema-raises:{got[1]}')))
                elif list(tuplify(got[1])) != list(tuplify(want)) and not any(n is None for n, _ in want):
                    out.append((f'.schema lists {len(got[1])} fields {got[1][:4]} for the {len(want)} output features {want[:4]}',
                                attribute('schema-differs')))
                elif any(n is None for n, _ in want):
                    # an un-named output: its position and kind must still be listed
                    if len(got[1]) != len(want) or [tuplify(k) for _, k in got[1]] != [tuplify(k) for _, k in want]:
                        out.append(('.schema does not list the un-named output features', attribute('schema-differs')))
        else:
            if impl['outcome'] == 'ok':
                out.append((f'a statement breaking {",".join(rules)} is constructed', attribute('accepted:' + ','.join(rules))))
            elif impl['err'] != 'grammar':
                out.append((f'a statement breaking {",".join(rules)} raises {impl["cls"]} instead of GrammarError',
                            attribute(f'wrong-exception:{impl["err"]}:' + ','.join(rules))))
        return out

    @staticmethod
    def _compare(impl: dict, model: dict, structure: bool = True) -> list:
        """[(what, impl, model)] — observable behaviour of the real constructors vs the Lean model (`structure=False`:
        outcome and schema only)"""
        outcome = 'ok' if impl['outcome'] == 'ok' else impl['err']
        mo = 'ok' if model['outcome'] == 'ok' else model['err']
        if mo != outcome:
            return [('construction outcome', outcome + ':' + impl.get('msg', ''), mo)]
        out = []
        if outcome == 'ok':
            stored = sexp.loads(sexp.dumps(impl['stored'])) if not isinstance(impl['stored'], str) else impl['stored']
            if structure and stored != model['stored']:
                out.append(('stored structure', sexp.dumps(impl['stored'])[:300], sexp.dumps(model['stored'])[:300]))
            isch = [impl['schema'][0], [[n, sexp.loads(sexp.dumps(k))] for n, k in impl['schema'][1]] if impl['schema'][0] == 'ok' else impl['schema'][1]]
            msch = [model['schema'][0], [[n, k] for n, k in model['schema'][1]] if model['schema'][0] == 'ok' else model['schema'][1]]
            if isch != msch:
                out.append(('.schema', isch, msch))
        return out

    def _selftest(self, cases: list, impls: list) -> None:
        """planted divergence: the model is asked about a *different* statement (one clause broken) than the one the
        implementation built — the comparison has to notice every time"""
        spec = Spec()
        mut = Mutator(self.rng, spec)
        picked = []
        for case, impl in zip(cases, impls):
            if impl['outcome'] != 'ok' or case['label'] != 'conforming':
                continue
            wrong = [m for label, m in mut.all(case['ast']) if spec.violations(m) and not label.startswith('unknown')]
            if wrong:
                picked.append((impl, {'label': 'selftest', 'ast': self.rng.choice(wrong), 'variant': case['variant']}))
            if len(picked) >= 25:
                break
        answers = self._model_all([c for _, c in picked])
        missed = [c for (impl, c), m in zip(picked, answers) if m['same'] and not self._compare(impl, m)]
        self.extra['planted_divergences'] = {'planted': len(picked), 'noticed': len(picked) - len(missed)}
        if missed or not picked:
            raise fw.MachineryError(f'planted model/implementation divergence not noticed: {missed[:1]}')

    @staticmethod
    def _nodes(ast) -> int:
        return 1 + sum(C07._nodes(a) for a in ast if isinstance(a, tuple)) if isinstance(ast, tuple) else 0

    def _account(self, case, impl, spec, i, verdicts):
        status, ast = self.oracle_ast(case, spec)
        broken = spec.violations(ast) if ast is not None else []
        conforming = not broken
        outcome = 'ok' if impl['outcome'] == 'ok' else impl['err']
        if case.get('kind') == 'api':
            key = ('api', case['api'])
            shape = ':'.join(case['label'].split(':')[:3])
            nontrivial = True
            text = sexp.dumps(short_small(case['api']))[:240]
        else:
            key = ('stmt', case['ast'])
            label = case['label']
            shape = label.split(':')[0] + (':' + label.split(':')[1] if label.startswith(('small', 'edge', 'literal', 'history')) and ':' in label else '')
            nontrivial = case['ast'][0] != 'table' and self._nodes(case['ast']) >= 4
            text = sexp.dumps(short_small(case['ast']))[:240]
        verdicts[('not-a-script' if status == 'not-a-script' else 'conforming' if conforming else 'violating') + ' -> ' + outcome] += 1
        self.case(key, shape, nontrivial=nontrivial,
                  sample={'label': case['label'], 'stmt': text, 'impl': outcome,
                          'oracle': status if status != 'ok' else 'conforming' if conforming else sorted({r for r, _ in broken})} if i % 211 == 0 else None)
        return status, conforming, broken

    def correspondence(self):
        import time
        t0 = time.time()
        phases = self.extra.setdefault('phase_seconds', {})
        cases = self.candidates()
        phases['generate'] = round(time.time() - t0, 1)
        impls = self._impl_all(cases)
        phases['implementation'] = round(time.time() - t0, 1)
        models = self._model_all(cases)
        phases['model'] = round(time.time() - t0, 1)
        spec = Spec()
        verdicts: collections.Counter = collections.Counter()
        domain: collections.Counter = collections.Counter()
        regions: collections.Counter = collections.Counter()
        for i, (case, impl, model) in enumerate(zip(cases, impls, models)):
            status, conforming, broken = self._account(case, impl, spec, i, verdicts)
            # model vs implementation
            if not model['same']:
                self.histogram['(verdict depends on a hash collision: not judged)'] += 1
                continue
            mo = 'ok' if model['outcome'] == 'ok' else model['err']
            if case.get('kind') != 'api' and model.get('regions') is not None:
                reg = model['regions']
                inside = [k for k in REGIONS if reg[k]]
                regions[','.join(inside) or 'outside every excluded region'] += 1
                if model['tame']:
                    # the region of C07_iff_denotation / C07_stored_denotation (and, if resolvable, of C07_error_kind_denotation):
                    # what the compiled model computes must be what the theorems say
                    domain['iff'] += 1
                    domain['iff_not_normal'] += not model['normal']
                    want = 'ok' if model['wf'] else ('grammar' if model['resolvable'] else None)
                    domain['error_kind'] += model['resolvable']
                    if (mo == 'ok') != model['wf'] or (want is not None and mo != want):
                        self.diverge('driver vs theorem C07_construct_eq', {'case': _jsonable(case)}, want, mo)
                    if mo == 'ok' and model['plain']:
                        domain['schema'] += 1
                        if model['schema'][0] != 'ok':
                            self.diverge('driver vs theorem C07_schema_partial', {'case': _jsonable(case)}, 'ok', model['schema'])
                if not any(reg[k] for k in ('unnamed', 'duplicate', 'unknown', 'dupTable', 'illTyped')):
                    # C07_outside_findings: outside F1-F3 and the two unreachable regions the model is the characteristic function
                    # of the grammar, and what it stores is the denotation (here: the oracle's own normal form of the script)
                    domain['outside_findings'] += 1
                    if mo != ('ok' if model['wf'] else 'grammar'):
                        self.diverge('driver vs theorem C07_outside_findings', {'case': _jsonable(case)}, 'ok' if model['wf'] else 'grammar', mo)
                    if mo == 'ok' and status == 'ok' and not has_rich_literal(case['ast']):
                        want = sexp.loads(sexp.dumps(spec.norm_source(case['ast'])))
                        if model['stored'] != want:
                            self.diverge('Lean denotation (Source.norm) vs the oracle\'s normal form', {'case': _jsonable(case)},
                                         sexp.dumps(want)[:300], sexp.dumps(model['stored'])[:300])
                # Lean WellFormed (of the denotation) vs the Python oracle (two independent transcriptions of the documented rules)
                if status == 'ok' and 'not-a-script' not in {r for r, _ in broken} and model['wf'] != conforming:
                    self.diverge('Lean WellFormed vs Python oracle', {'case': _jsonable(case)}, 'conforming' if conforming else broken[:3], model['wf'])
            if not has_list_literal(case.get('ast', case.get('api'))):  # the model has no notion of (un)hashable values (C07-F4)
                # in which order a repeated where / having AND-combines its conditions is not the property's business
                repeated = case.get('kind') == 'api' and any(sum(op[0] == k for op in case['api'][2:] if isinstance(op, tuple)) +
                                                             (case['api'][1][0] == 'query' and case['api'][1][i] is not None) > 1
                                                             for k, i in (('where', 3), ('having', 5))) if case.get('kind') == 'api' and case['api'][0] == 'chain' else False
                for what, a, b in self._compare(impl, model, structure=not repeated):
                    self.diverge(what, {'case': _jsonable(case)}, a, b)
            # the property on the real code
            for what, sig in self.judge(case, impl):
                self.violate(f'{what} [{case["label"]}]', {'kind': case.get('kind', 'stmt'), **_jsonable(case)}, sig,
                             detail={'impl': {k: v for k, v in impl.items() if k != 'stored'}, 'oracle': broken[:5]})
        self.extra['verdicts'] = {k: v for k, v in sorted(verdicts.items())}
        self.extra['cases_in_theorem_domain'] = dict(domain)
        self.extra['cases_by_excluded_region'] = dict(regions)
        phases['judge'] = round(time.time() - t0, 1)
        self._reflect_stream()
        self._history_stream(spec)
        phases['histories'] = round(time.time() - t0, 1)
        self._unreachable_regions()
        if not self.quick:
            self._selftest(cases, impls)

    # ---- kind.reflect, literal histories -----------------------------------------------------------------------------
    def _reflect_model(self, values: list) -> list:
        answers = self.model([sexp.dumps(('reflect', model_py(pyval_ast(v)))) for v in values])
        out = []
        for a in answers:
            x = sexp.loads(a)
            if not isinstance(x, list) or x[0] != 'reflect':
                raise fw.MachineryError(f'model driver answered {a[:200]}')
            out.append(x[1][1] if x[1][0] == 'ok' else None)
        return out

    def _reflect_stream(self):
        """`kind.reflect` on value sequences in this process (whatever was reflected before): the Lean `reflect`, the real
        one and the documented kind of the python type must agree at every position"""
        from forml.io.dsl._struct import kind as kindmod

        r = self.rng
        values = list(REFLECT_SAMPLES) + [r.choice(REFLECT_SAMPLES) for _ in range(self.n(60, 600))]
        r.shuffle(values)
        modelled = self._reflect_model(values)
        for i, (v, m) in enumerate(zip(values, modelled)):
            a = pyval_ast(v)
            try:
                got = g.kind_ast(kindmod.reflect(v))
            except ValueError:
                got = None
            except Exception as e:  # pylint: disable=broad-except
                got = 'raises:' + type(e).__name__
            want = py_kind(a)
            self.case(('reflect', a, i), 'reflect:' + a[0], nontrivial=True, sample=None)
            got_s = None if got is None else sexp.loads(sexp.dumps(got))
            if got_s != m:
                self.diverge('kind.reflect', {'reflect': list(a), 'position': i, 'before': [list(pyval_ast(x)) for x in values[max(0, i - 6):i]]}, got, m)
            if (None if want is None else sexp.loads(sexp.dumps(want))) != m:
                raise fw.MachineryError(f'Lean reflect {m} and the documented kind {want} of {v!r} differ')

    def _judge_history(self, steps: list, results: list, spec: Spec, models: dict) -> list:
        """[(index, what, signature)] of one sequence"""
        out = []
        for i, (st, res) in enumerate(zip(steps, results)):
            if st['op'] == 'reflect':
                want = py_kind(tuplify(st['py']))
                got = res.get('kind') if res['outcome'] == 'ok' else None
                if (None if got is None else tuplify(got)) != want:
                    out.append((i, f'kind.reflect({pyval_of(tuplify(st["py"]))!r}) is {got} after {i} earlier steps', None))
                continue
            case = {'label': st['label'], 'ast': tuplify(st['ast']), 'variant': tuple(st['variant'])}
            for what, sig in self.judge(case, res):
                out.append((i, what, sig))
        return out

    def _history_stream(self, spec: Spec):
        """literal-sensitive statements in sequences, each sequence in a fresh interpreter: the verdict on a statement must
        not depend on what was reflected or constructed earlier in the process"""
        import concurrent.futures

        plans = history_plan(self.rng, self.n(10, 60), self.n(24, 40))
        with concurrent.futures.ThreadPoolExecutor(max_workers=min(8, len(plans))) as ex:
            results = list(ex.map(run_history_fresh, plans))
        # the model's verdict on every distinct statement (a pure function: position-free by construction)
        distinct = {}
        for steps in plans:
            for st in steps:
                if st['op'] == 'stmt':
                    distinct.setdefault(tuplify(st['ast']), {'label': st['label'], 'ast': tuplify(st['ast']), 'variant': tuple(st['variant'])})
        keys = list(distinct)
        models = dict(zip(keys, self._model_all([distinct[k] for k in keys])))
        verdict_by_stmt: dict = {}
        nsteps = 0
        for steps, res in zip(plans, results):
            for i, (st, rs) in enumerate(zip(steps, res)):
                nsteps += 1
                if st['op'] != 'stmt':
                    continue
                ast = tuplify(st['ast'])
                outcome = 'ok' if rs['outcome'] == 'ok' else rs['err']
                verdict_by_stmt.setdefault(ast, set()).add(outcome)
                self.case(('history', ast, i), st['label'], nontrivial=True, sample=None)
                m = models[ast]
                case = {'label': st['label'], 'ast': ast, 'variant': tuple(st['variant'])}
                for what, a, b in self._compare(rs, m):
                    self.diverge('history: ' + what, {'case': _jsonable(case), 'position': i}, a, b)
            for i, what, sig in self._judge_history(steps, res, spec, models):
                self._report_history(steps, i, what, sig)
        unstable = {k: v for k, v in verdict_by_stmt.items() if len(v) > 1}
        self.extra['literal_histories'] = {'sequences': len(plans), 'steps': nsteps, 'distinct_statements': len(keys),
                                           'statements_with_order_dependent_verdict': len(unstable)}

    def _report_history(self, steps: list, index: int, what: str, sig):
        """shrink the history in front of a failing step (alone? one earlier step? the whole prefix?) and report it"""
        import concurrent.futures

        failing = steps[index]
        key = ('history', sexp.dumps(failing.get('ast', failing.get('py'))))
        if key in self._reported:
            return
        self._reported.add(key)

        def fails(seq) -> bool:
            res = run_history_fresh(seq)
            return any(i == len(seq) - 1 for i, _, _ in self._judge_history(seq, res, Spec(), {}))

        self._shrunk += 1
        if self._shrunk > 6:  # enough witnesses (every one costs fresh interpreters): the rest is only counted
            self.extra['history_failures_not_reported'] = self.extra.get('history_failures_not_reported', 0) + 1
            return
        if fails([failing]):
            prefix = []
        elif self._shrunk > 3:
            prefix = steps[:index]
        else:
            prefix = steps[:index]
            seen, cands = set(), []
            for p in reversed(prefix):  # one earlier step + the failing one, distinct earlier steps only, the latest first
                k = sexp.dumps(p.get('ast', p.get('py')))
                if k not in seen:
                    seen.add(k)
                    cands.append([p, failing])
            cands = cands[:18]
            with concurrent.futures.ThreadPoolExecutor(max_workers=6) as ex:
                hits = [c for c, bad in zip(cands, ex.map(fails, cands)) if bad]
            if hits:
                prefix = hits[0][:1]
        witness = {'kind': 'history', 'steps': _jsonable_steps(prefix + [failing])}
        if failing['op'] == 'stmt' and not prefix:
            witness = {'kind': 'stmt', 'label': failing['label'], 'ast': failing['ast'], 'variant': list(failing['variant'])}
        signature = sig if not prefix else 'history-dependent:' + (sig or 'reflect')
        def show(st) -> str:
            if st['op'] == 'reflect':
                return 'reflect ' + repr(pyval_of(tuplify(st['py'])))
            lits = [repr(pyval_of(x[1])) for x in _py_literals(tuplify(st['ast']))]
            return st['label'].split(':', 1)[-1] + ' with L = ' + ', '.join(dict.fromkeys(lits))

        self.violate(f'{what}' + (f' — after {len(prefix)} earlier step(s) in the same process: {[show(s) for s in prefix][:2]}' if prefix else '') +
                     f' [{failing.get("label", "reflect")}]', witness, signature or 'reflect-kind')

    _reported: set = set()
    _shrunk = 0

    def _unreachable_regions(self):
        """the two regions the theorems exclude as unreachable, on the real code: a schema with a repeated field name cannot
        be declared, and a call with the wrong number of operands is refused by Python itself"""
        from forml.io import dsl
        from forml.io.dsl import function

        notes = {}
        try:
            import types
            fields = {'a': dsl.Field(dsl.Integer(), name='x'), 'b': dsl.Field(dsl.String(), name='x')}
            types.new_class('Dup', (dsl.Schema,), {}, lambda ns: ns.update(fields))
            notes['repeated field name'] = 'declared'
        except Exception as e:  # pylint: disable=broad-except
            notes['repeated field name'] = type(e).__name__
        b = Builder('ctor', 'class', 'ctor')
        sid = b.feature(col(S, 'id'))
        for name, call in (('Addition(x)', lambda: function.Addition(sid)), ('Sum(x, y)', lambda: function.Sum(sid, sid)),
                           ('RowNumber() + 1', lambda: function.RowNumber() + 1), ('Count(RowNumber())', lambda: function.Count(function.RowNumber()))):
            try:
                call()
                notes[name] = 'constructed'
            except Exception as e:  # pylint: disable=broad-except
                notes[name] = type(e).__name__
        self.extra['unreachable_regions_on_the_real_code'] = notes
        self.case(('unreachable', tuple(sorted(notes.items()))), 'unreachable-regions', nontrivial=True, sample=None)
        if notes['repeated field name'] == 'declared':
            self.violate('a schema with a repeated field name can be declared (the model excludes such tables as unreachable)',
                         {'kind': 'dup-schema'}, 'dup-schema-declared')
        for name in ('Addition(x)', 'Sum(x, y)', 'RowNumber() + 1', 'Count(RowNumber())'):
            if notes[name] not in ('TypeError', 'ValueError'):
                self.diverge('ill-typed call', {'call': name}, notes[name], 'TypeError/ValueError')

    @staticmethod
    def _normal(ast, spec) -> bool:
        """the AST is its own normal form (the Lean predicate is stated for those)"""
        try:
            return spec.norm_source(ast) == ast
        except Exception:  # pylint: disable=broad-except
            return False

    def search(self, reason):
        # widen around the diverging candidates: all their single-rule mutations, judged on the real code
        import time
        t0 = time.time()
        spec = Spec()
        mut = Mutator(self.rng, spec)
        seeds = [tuplify(d.case['case']['ast']) for d in self.divergences
                 if isinstance(d.case, dict) and 'case' in d.case and 'ast' in d.case['case']][:30]
        api_seeds = [tuplify(d.case['case']['api']) for d in self.divergences
                     if isinstance(d.case, dict) and 'case' in d.case and 'api' in d.case['case']][:30]
        reflected = [d for d in self.divergences if isinstance(d.case, dict) and 'reflect' in d.case]
        cases = []
        if not seeds and not api_seeds:  # a proof obligation broke / only reflect diverged: re-judge a fresh, larger sample
            gen = g.Gen(self.rng, small_ints=True)
            seeds = [gen.statement(2) for _ in range(60)]
        for s in seeds:
            cases.append({'label': 'search:seed', 'ast': s, 'variant': ('ctor', 'class', 'ctor', False)})
            try:
                for label, m in (mut.all(s) + mut.literal_mutations(s))[:60]:
                    cases.append({'label': 'search:' + label, 'ast': m, 'variant': ('ctor', 'class', 'ctor', False)})
            except Exception:  # pylint: disable=broad-except
                pass
        for api in api_seeds:
            cases.append({'kind': 'api', 'label': 'search:api-seed', 'api': api})
            if api[0] == 'chain':  # the same calls in every rotation, and each call alone
                ops = list(api[2:])
                for k in range(1, len(ops)):
                    cases.append({'kind': 'api', 'label': 'search:api-rotated', 'api': ('chain', api[1]) + tuple(ops[k:] + ops[:k])})
                for op in ops:
                    cases.append({'kind': 'api', 'label': 'search:api-single-call', 'api': ('chain', api[1], op)})
            else:
                for kind in g.JOIN_KINDS:
                    for arg in (('enum', kind), ('str', kind)):
                        for cond in (api[4], None):
                            cases.append({'kind': 'api', 'label': 'search:api-join', 'api': ('join', api[1], api[2], arg, cond)})
        for case, impl in zip(cases, self._impl_all(cases)):
            for what, sig in self.judge(case, impl):
                self.violate(f'{what} [{case["label"]}]', {'kind': case.get('kind', 'stmt'), **_jsonable(case)}, sig)
        self.extra.setdefault('phase_seconds', {})['search'] = round(time.time() - t0, 1)
        if not reflected and not reason.startswith('broken'):
            self.notes.append(f'failing-input search ({reason}): {len(cases)} candidates around {len(seeds)} + {len(api_seeds)} seeds')
            return
        # kind.reflect disagreed (or a table theorem broke): literal-sensitive statements in histories around the values
        import concurrent.futures
        templates = history_templates()
        values = [pyval_of(tuplify(d.case['reflect'])) for d in reflected][:6] or list(HISTORY_VALUES[:8])
        before = [pyval_of(tuplify(x)) for d in reflected[:3] for x in d.case.get('before', [])]
        plans = []
        for v in values:
            warm = [{'op': 'reflect', 'py': pyval_ast(x)} for x in (before or HISTORY_VALUES[:8])]
            plans.append(warm + [{'op': 'stmt', 'label': f'search:history:{name}', 'ast': make(v), 'variant': ('ctor', 'class', 'ctor', False)}
                                 for name, make in templates])
            plans.append(list(reversed(plans[-1])))
        plans = plans[:10]
        with concurrent.futures.ThreadPoolExecutor(max_workers=5) as ex:
            outcomes = list(ex.map(run_history_fresh, plans))
        for steps, res in zip(plans, outcomes):
            for i, what, sig in self._judge_history(steps, res, spec, {}):
                if steps[i]['op'] == 'stmt':
                    self._report_history(steps, i, what, sig)
        self.notes.append(f'failing-input search ({reason}): {len(cases)} candidates around {len(seeds)} + {len(api_seeds)} seeds, {len(plans)} literal histories')

    def replay_finding(self, entry):
        w = entry['witness']
        wanted = entry.get('signature')
        if w.get('kind') == 'history':
            steps = [dict(st) for st in w['steps']]
            res = run_history_fresh(steps)
            for i, what, sig in self._judge_history(steps, res, Spec(), {}):
                sig = 'history-dependent:' + (sig or 'reflect') if len(steps) > 1 else sig
                if i == len(steps) - 1 and (wanted is None or sig == wanted):
                    return fw.Violation(what, w, sig)
            return None
        if w.get('kind') == 'api':
            case = {'kind': 'api', 'label': w.get('label', 'replay'), 'api': tuplify(w['api'])}
        elif w.get('kind') == 'stmt':
            case = {'label': w.get('label', 'replay'), 'ast': tuplify(w['ast']), 'variant': tuple(w.get('variant', ('ctor', 'class', 'ctor', False)))}
        else:
            return None
        impl = run_impl(case)
        for what, sig in self.judge(case, impl):
            if wanted is None or sig == wanted:
                return fw.Violation(what, w, sig)
        return None


REGIONS = ('dupTable', 'unnamed', 'duplicate', 'unkinded', 'unknown', 'illTyped')


def _py_literals(ast):
    """('py', PY) of every literal of an AST"""
    if isinstance(ast, tuple):
        if len(ast) == 2 and ast[0] == 'lit' and isinstance(ast[1], tuple):
            yield ast[1] if ast[1][0] == 'py' else ('py', ast[1])
        else:
            for a in ast:
                yield from _py_literals(a)


def has_rich_literal(ast) -> bool:
    if isinstance(ast, tuple):
        if len(ast) == 2 and ast[0] == 'lit' and isinstance(ast[1], tuple) and ast[1] and ast[1][0] == 'py':
            return True
        return any(has_rich_literal(a) for a in ast)
    return False


def _jsonable_steps(steps: list) -> list:
    return [{k: (list(v) if isinstance(v, tuple) else v) for k, v in st.items()} for st in steps]


def _jsonable(case: dict) -> dict:
    if case.get('kind') == 'api':
        return {'label': case['label'], 'api': case['api']}
    return {'label': case['label'], 'ast': case['ast'], 'variant': list(case['variant'])}


if __name__ == '__main__':
    raise SystemExit(fw.run(C07))
