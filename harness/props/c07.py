"""C07 — a statement is constructible exactly when it obeys the documented DSL grammar
(forml/io/dsl/_struct/{frame,series,kind}.py vs lean/ForML/Model/Grammar.lean).

Candidate statements are ASTs in the wire format of props/dslgen.py.  Every candidate is

* built into real forml objects through the public DSL API by a `Builder` (several API styles: constructor /
  chained methods, python operators / function classes, `origin[name]` / `dsl.Element`, join kind as enum / str),
  recording success + the stored structure + `.schema`, or the exception class;
* sent to the Lean model driver (`construct`, `.schema`, Lean `WellFormed`);
* judged by `Spec`, an independent Python transcription of the documented rules (docs/dsl/query/syntax.rst and
  the property text), which alone decides violations.
"""
from __future__ import annotations

import collections
import functools
import itertools
import multiprocessing
import os
import sys
import typing

from core import framework as fw
from core import sexp

from . import dslgen as g

# ---- catalog ---------------------------------------------------------------------------------------------------
#: a fourth table: string `id` (same name, other kind than Student.id), a timestamp column
GRADE = ('table', 'Grade', (('id', 'string'), ('student', 'integer'), ('mark', 'float'), ('taken', 'timestamp')))
CATALOG = g.CATALOG + (GRADE,)
S, K, C, G = g.STUDENT, g.SCHOOL, g.CAMPUS, GRADE


def with_let(line) -> tuple:
    return ('let', tuple((t[1], t) for t in CATALOG), line)


def short(ast):
    if isinstance(ast, tuple):
        if ast in CATALOG:
            return '$' + ast[1]
        return tuple(short(a) for a in ast)
    return ast


def tuplify(x):
    return tuple(tuplify(i) for i in x) if isinstance(x, (list, tuple)) else x


def col(t, n):
    return ('elem', t, n)


def lit(v):
    if isinstance(v, bool):
        return ('lit', ('bool', v))
    if isinstance(v, int):
        return ('lit', ('int', v))
    if isinstance(v, str):
        return ('lit', ('str', v))
    return ('lit', ('float', repr(v)))


def query(src, sel=(), pre=None, grp=(), post=None, order=(), rows=None):
    return ('query', src, tuple(sel), pre, tuple(grp), post, tuple(order), rows)


ROWNUMBER = ('expr', 'rownumber')

# ---- the documented grammar (independent oracle) ----------------------------------------------------------------
NUMERIC = frozenset({'integer', 'float', 'decimal'})
DATELIKE = frozenset({'date', 'timestamp'})
#: kind.__rank__ as documented in kind.py ("relative size")
RANK = {'boolean': 0, 'integer': 1, 'float': 2, 'decimal': 1, 'string': 1, 'date': 2, 'timestamp': 1}
COMPARISON2 = frozenset({'lt', 'le', 'gt', 'ge', 'eq', 'ne'})
COMPARISON1 = frozenset({'isnull', 'notnull'})
LOGICAL = frozenset({'and', 'or', 'not'})
AGGREGATE = frozenset({'count', 'avg', 'max', 'min', 'sum'})
ARITHMETIC = frozenset({'add', 'sub', 'mul', 'div', 'mod', 'abs', 'avg', 'max', 'min', 'sum', 'ceil', 'floor'})
INTEGER_VALUED = frozenset({'ceil', 'floor', 'count', 'year', 'rownumber'})
ARITY = g.ARITY


def rank(kind) -> int:
    return RANK[kind] if isinstance(kind, str) else len(kind) - 1


class Spec:
    """The documented rules evaluated on the AST alone.

    `collapse=True` emulates the dictionary collapse of equal names in `Source.schema` (only used to *attribute* a
    disagreement to the known duplicate-name defect, never to decide one)."""

    def __init__(self, collapse: bool = False):
        self.collapse = collapse
        self.norm_source = functools.lru_cache(maxsize=None)(self._norm_source)
        self.outs = functools.lru_cache(maxsize=None)(self._outs)
        self.sig = functools.lru_cache(maxsize=None)(self._sig)
        self.kind = functools.lru_cache(maxsize=None)(self._kind)

    # -- what a script denotes: `x.reference(a).reference(b)` is a reference of x; `f.alias(a).alias(b)` an alias of f;
    #    a set combines *statements* (a bare origin stands for the query selecting everything from it)
    def _norm_source(self, s):
        tag = s[0]
        if tag == 'table':
            return s
        if tag == 'ref':
            inner = self.norm_source(s[1])
            return ('ref', inner[1] if inner[0] == 'ref' else inner, s[2])
        if tag == 'join':
            return ('join', self.norm_source(s[1]), self.norm_source(s[2]), s[3], None if s[4] is None else self.norm_feature(s[4]))
        if tag == 'set':
            def stmt(x):
                x = self.norm_source(x)
                return x if x[0] in ('query', 'set') else query(x)
            return ('set', stmt(s[1]), stmt(s[2]), s[3])
        _, src, sel, pre, grp, post, order, rows = s
        nf = self.norm_feature
        return ('query', self.norm_source(src), tuple(nf(f) for f in sel), None if pre is None else nf(pre),
                tuple(nf(f) for f in grp), None if post is None else nf(post),
                tuple(('ord', nf(o[1]), o[2]) for o in order), rows)

    def norm_feature(self, f):
        tag = f[0]
        if tag == 'lit':
            return f
        if tag == 'elem':
            return ('elem', self.norm_source(f[1]), f[2])
        if tag == 'alias':
            inner = self.norm_feature(f[1])
            return ('alias', inner[1] if inner[0] == 'alias' else inner, f[2])
        if tag == 'cast':
            return ('cast', self.norm_feature(f[1]), f[2])
        if tag == 'window':
            return ('window', f[1] if f[1] == ROWNUMBER else self.norm_feature(f[1]), tuple(self.norm_feature(p) for p in f[2]),
                    tuple(('ord', self.norm_feature(o[1]), o[2]) for o in f[3]))
        return ('expr', f[1]) + tuple(self.norm_feature(a) for a in f[2:])

    # -- sources
    @staticmethod
    def name(f) -> typing.Optional[str]:
        return f[2] if f[0] in ('alias', 'elem') else None

    def _outs(self, s) -> tuple:
        """output features of a (normalised) source"""
        tag = s[0]
        if tag == 'table':
            return tuple(('elem', s, n) for n, _ in s[2])
        if tag == 'ref':
            return tuple(('elem', s, self.name(f)) for f in self.outs(s[1]) if self.name(f) is not None)
        if tag in ('join', 'set'):
            return self.outs(s[1]) + self.outs(s[2])
        return s[2] if s[2] else self.outs(s[1])

    def avail(self, s) -> frozenset:
        out = set()
        for f in self.outs(s):
            out |= self.elements(f)
        return frozenset(out)

    def _sig(self, s) -> tuple:
        """names and kinds of the output features in order (a set: those of its left operand)"""
        tag = s[0]
        if tag == 'table':
            return tuple(s[2])
        if tag == 'ref':
            return self.sig(s[1])
        if tag == 'join':
            return self.sig(s[1]) + self.sig(s[2])
        if tag == 'set':
            return self.sig(s[1]) if not self.collapse else self.sig(s[1]) + self.sig(s[2])
        if s[2]:
            return tuple((self.name(f), self.kind(f)) for f in s[2])
        return self.sig(s[1])

    @staticmethod
    def dictify(sig) -> tuple:
        d = {}
        for n, k in sig:
            d[n] = k
        return tuple(d.items())

    def schema(self, s) -> tuple:
        return self.dictify(self.sig(s)) if self.collapse else self.sig(s)

    # -- features
    def elements(self, f) -> frozenset:
        tag = f[0]
        if tag == 'elem':
            return frozenset({f})
        if tag in ('alias', 'cast'):
            return self.elements(f[1])
        if tag == 'expr':
            out = set()
            for a in f[2:]:
                out |= self.elements(a)
            return frozenset(out)
        return frozenset()  # literal; a window specification is not entered by the documented visitor

    def has(self, f, what: str) -> bool:
        tag = f[0]
        if tag == 'window':
            return what == 'window'
        if tag in ('alias', 'cast'):
            return self.has(f[1], what)
        if tag == 'expr':
            return (what == 'aggregate' and f[1] in AGGREGATE) or any(self.has(a, what) for a in f[2:])
        return False

    def _kind(self, f):
        tag = f[0]
        if tag == 'lit':
            return {'int': 'integer', 'bool': 'boolean', 'str': 'string', 'float': 'float'}[f[1][0]]
        if tag == 'elem':
            found = None
            for n, k in self.sig(f[1]):
                if n == f[2]:
                    if not self.collapse:
                        return k
                    found = k
            return found
        if tag == 'alias':
            return self.kind(f[1])
        if tag == 'cast':
            return f[2]
        if tag == 'window':
            return self.kind(f[1])
        op = f[1]
        if op in COMPARISON2 or op in COMPARISON1 or op in LOGICAL:
            return 'boolean'
        if op in INTEGER_VALUED:
            return 'integer'
        kinds = [self.kind(a) for a in f[2:]]
        if not kinds or any(k is None for k in kinds):
            return None
        top = max(rank(k) for k in kinds)
        return next(k for k in kinds if rank(k) == top)

    # -- the rules
    def unknown(self, f) -> bool:
        """some element the feature is composed of names no output of its origin"""
        return any(e[2] not in {n for n, _ in self.sig(e[1])} for e in self.elements(f))

    def feature_rules(self, f, out: list, where: str) -> None:
        tag = f[0]
        if tag == 'lit':
            return
        if tag == 'elem':
            self.source_rules(f[1], out)
            return
        if tag in ('alias', 'cast'):
            self.feature_rules(f[1], out, where)
            return
        if tag == 'window':
            if f[1] != ROWNUMBER:
                self.feature_rules(f[1], out, where)
            for p in f[2]:
                self.feature_rules(p, out, where)
            for o in f[3]:
                self.feature_rules(o[1], out, where)
            return
        op, args = f[1], f[2:]
        for a in args:
            self.feature_rules(a, out, where)
        if op == 'rownumber' or len(args) != ARITY[op]:
            out.append(('not-a-script', where))
            return
        if any(a[0] == 'alias' for a in args):
            out.append(('operand-not-operable', where))
        kinds = [self.kind(a) for a in args]
        missing = any(k is None for k in kinds)
        label = 'unknown-element' if missing and any(self.unknown(a) for a in args) else None
        if op in COMPARISON2 or op in COMPARISON1:
            if missing or not (all(k in NUMERIC for k in kinds) or all(a == b for a in kinds for b in kinds)):
                out.append((label or 'comparison-kinds', where))
        elif op in LOGICAL:
            if not all(k == 'boolean' for k in kinds):
                out.append((label or 'logical-kinds', where))
        elif op in ARITHMETIC:
            if not all(k in NUMERIC for k in kinds):
                out.append((label or 'arithmetic-kinds', where))
        elif op == 'year':
            if not all(k in DATELIKE for k in kinds):
                out.append((label or 'year-kind', where))

    def scope_rule(self, f, avail, out: list, where: str) -> None:
        if not self.elements(f) <= avail:
            out.append(('unknown-element' if self.unknown(f) else 'foreign-element', where))

    def predicate_rules(self, p, out: list, where: str) -> None:
        if p[0] == 'alias':
            out.append(('filter-not-operable', where))
        elif self.kind(p) != 'boolean':
            out.append(('unknown-element' if self.kind(p) is None and self.unknown(p) else 'filter-not-boolean', where))

    def source_rules(self, s, out: list) -> None:
        tag = s[0]
        if tag == 'table':
            return
        if tag == 'ref':
            self.source_rules(s[1], out)
            return
        if tag == 'join':
            _, l, r, kind, cond = s
            self.source_rules(l, out)
            self.source_rules(r, out)
            if cond is not None:
                self.feature_rules(cond, out, 'join')
            if (kind == 'cross') != (cond is None):
                out.append(('cross-join-condition', 'join'))
            if cond is not None:
                self.predicate_rules(cond, out, 'join')
                if self.has(cond, 'aggregate') or self.has(cond, 'window'):
                    out.append(('aggregate-in-condition', 'join'))
                self.scope_rule(cond, self.avail(l) | self.avail(r), out, 'join')
            return
        if tag == 'set':
            self.source_rules(s[1], out)
            self.source_rules(s[2], out)
            if self.schema(s[1]) != self.schema(s[2]):
                out.append(('set-schemas-differ', 'set'))
            return
        _, src, sel, pre, grp, post, order, _ = s
        self.source_rules(src, out)
        for f in sel:
            self.feature_rules(f, out, 'select')
        if pre is not None:
            self.feature_rules(pre, out, 'where')
        for f in grp:
            self.feature_rules(f, out, 'groupby')
        if post is not None:
            self.feature_rules(post, out, 'having')
        for o in order:
            self.feature_rules(o[1], out, 'orderby')
        avail = self.avail(src)
        for f in sel:
            self.scope_rule(f, avail, out, 'select')
        if pre is not None:
            self.predicate_rules(pre, out, 'where')
            self.scope_rule(pre, avail, out, 'where')
            if self.has(pre, 'aggregate') or self.has(pre, 'window'):
                out.append(('aggregate-in-condition', 'where'))
        for f in grp:
            if f[0] == 'alias':
                out.append(('grouping-not-operable', 'groupby'))
            if self.has(f, 'aggregate') or self.has(f, 'window'):
                out.append(('aggregate-in-grouping', 'groupby'))
            self.scope_rule(f, avail, out, 'groupby')
        if grp:
            for f in (sel or self.outs(src)):
                operable = f[1] if f[0] == 'alias' else f
                if operable not in grp and not self.has(operable, 'aggregate'):
                    out.append(('non-aggregate-outside-grouping', 'select'))
                    break
        if post is not None:
            self.predicate_rules(post, out, 'having')
            self.scope_rule(post, avail, out, 'having')
            if self.has(post, 'window'):
                out.append(('window-in-having', 'having'))
        for o in order:
            if o[1][0] == 'alias':
                out.append(('ordering-not-operable', 'orderby'))
            self.scope_rule(o[1], avail, out, 'orderby')

    def violations(self, ast) -> list:
        """[(rule, clause)] — every documented rule the statement breaks (empty: conforming)"""
        out: list = []
        self.source_rules(self.norm_source(ast), out)
        return out

    def expected_schema(self, ast) -> tuple:
        return self.schema(self.norm_source(ast))


def sources_in(ast):
    """every source node of an AST, also inside element origins"""
    if isinstance(ast, tuple) and ast:
        if ast[0] in ('table', 'ref', 'join', 'set', 'query') and len(ast) >= 3:
            yield ast
        for a in ast:
            yield from sources_in(a)


def elements_in(ast):
    if isinstance(ast, tuple) and ast:
        if ast[0] == 'elem' and len(ast) == 3:
            yield ast
        for a in ast:
            yield from elements_in(a)


# ---- the implementation ------------------------------------------------------------------------------------------
class Builder(g.Builder):
    """dslgen.Builder + the join kind handed over as a plain string (`typing.Union[Join.Kind, str]`)."""

    def __init__(self, via='chain', ops='operator', elem='getitem', kindstr=False):
        super().__init__(via=via, ops=ops, elem=elem)
        self.kindstr = kindstr

    def source(self, ast):
        from forml.io import dsl

        if ast[0] == 'join':
            _, l, r, kind, cond = ast
            left, right = self.source(l), self.source(r)
            condition = None if cond is None else self.feature(cond, toplevel=True)
            if self.via == 'chain' and not self.kindstr and (kind == 'cross') == (condition is None) and isinstance(left, dsl.Origin):
                if kind == 'cross':
                    return left.cross_join(right)
                return getattr(left, f'{kind}_join')(right, condition)
            return dsl.Join(left, right, kind if self.kindstr else dsl.Join.Kind(kind), condition)
        return super().source(ast)


VARIANTS = tuple(itertools.product(('ctor', 'chain'), ('class', 'operator'), ('ctor', 'getitem'), (False, True)))
EXC = {'GrammarError': 'grammar', 'KeyError': 'lookup', 'RecursionError': 'recursion', 'TypeError': 'illtyped', 'ValueError': 'illtyped'}


def run_impl(case: dict) -> dict:
    """Build the candidate on the real code; {'outcome': 'ok'|'error', ...}"""
    ast, variant = case['ast'], case.get('variant', ('ctor', 'class', 'ctor', False))
    out: dict = {}
    try:
        obj = Builder(*variant).build(ast)
    except RecursionError:
        return {'outcome': 'error', 'cls': 'RecursionError', 'err': 'recursion'}
    except Exception as e:  # pylint: disable=broad-except
        return {'outcome': 'error', 'cls': type(e).__name__, 'err': EXC.get(type(e).__name__, 'other:' + type(e).__name__),
                'msg': str(e)[:160]}
    out['outcome'] = 'ok'
    try:
        out['stored'] = g.to_ast(obj)
    except Exception as e:  # pylint: disable=broad-except
        out['stored'] = f'unreadable:{type(e).__name__}'
    try:
        out['schema'] = ['ok', [(f.name, g.kind_ast(f.kind)) for f in obj.schema]]
    except RecursionError:
        out['schema'] = ['error', 'recursion']
    except Exception as e:  # pylint: disable=broad-except
        out['schema'] = ['error', EXC.get(type(e).__name__, 'other:' + type(e).__name__)]
    return out


def _impl_chunk(chunk: list) -> list:
    sys.setrecursionlimit(1200)
    return [run_impl(c) for c in chunk]


# ---- candidate generation ------------------------------------------------------------------------------------------
def _kind_lit(kind):
    return {'integer': lit(3), 'float': lit(2.5), 'decimal': lit(3), 'string': lit('a'), 'boolean': lit(True),
            'date': None, 'timestamp': None}.get(kind)


class Mutator:
    """Single-rule violations (and boundary-preserving variants) of a conforming statement, at every position."""

    def __init__(self, rng, spec: Spec):
        self.rng = rng
        self.spec = spec

    # -- helpers
    def columns(self, src, want=None) -> list:
        sp = self.spec
        outs = [f for f in sp.outs(sp.norm_source(src)) if f[0] == 'elem']
        return [f for f in outs if want is None or self._is(sp.kind(f), want)]

    @staticmethod
    def _is(kind, want) -> bool:
        if want == 'numeric':
            return kind in NUMERIC
        return kind == want

    def foreign(self, scope_sources: list, like=None):
        """an element that is not available from the given sources (same kind as `like` when possible)"""
        sp = self.spec
        avail = set()
        for s in scope_sources:
            avail |= sp.avail(sp.norm_source(s))
        want = None if like is None else sp.kind(sp.norm_feature(like))
        cands = []
        for t in CATALOG:
            for origin in (t, ('ref', t, 'zz')):
                for n, k in t[2]:
                    e = ('elem', origin, n)
                    if e not in avail:
                        cands.append((k == want, e))
        best = [e for same, e in cands if same] or [e for _, e in cands]
        return self.rng.choice(best)

    def numeric_leaf_paths(self, f, path=()) -> list:
        """paths of numeric operands inside a feature (where an aggregate / window can be planted)"""
        sp = self.spec
        out = []
        if f[0] in ('elem', 'lit') and sp.kind(sp.norm_feature(f)) in NUMERIC:
            out.append(path)
        if f[0] == 'expr':
            for i, a in enumerate(f[2:], start=2):
                out.extend(self.numeric_leaf_paths(a, path + (i,)))
        if f[0] in ('alias', 'cast'):
            out.extend(self.numeric_leaf_paths(f[1], path + (1,)))
        return out

    def element_paths(self, f, path=()) -> list:
        out = []
        if f[0] == 'elem':
            out.append(path)
        elif f[0] == 'expr':
            for i, a in enumerate(f[2:], start=2):
                out.extend(self.element_paths(a, path + (i,)))
        elif f[0] in ('alias', 'cast'):
            out.extend(self.element_paths(f[1], path + (1,)))
        return out

    def expr_paths(self, f, path=()) -> list:
        out = []
        if f[0] == 'expr':
            out.append(path)
            for i, a in enumerate(f[2:], start=2):
                out.extend(self.expr_paths(a, path + (i,)))
        elif f[0] in ('alias', 'cast'):
            out.extend(self.expr_paths(f[1], path + (1,)))
        return out

    def plant(self, f, what: str, src):
        """put an aggregate / window around a numeric operand of `f` (or and-combine one when there is none)"""
        paths = self.numeric_leaf_paths(f)
        cols = self.columns(src, 'numeric') or self.columns(src)
        if what == 'aggregate':
            wrap = lambda x: ('expr', self.rng.choice(('sum', 'max', 'min', 'avg')), x)  # noqa: E731
        else:
            wrap = lambda x: ('window', ('expr', 'sum', x), tuple(cols[:1]), ())  # noqa: E731
        if paths:
            p = self.rng.choice(paths)
            return g.replace(f, p, wrap(g.get(f, p)))
        if not cols:
            return None
        extra = ('expr', 'gt', wrap(cols[0]) if self.spec.kind(self.spec.norm_feature(cols[0])) in NUMERIC else
                 ('expr', 'count', cols[0]) if what == 'aggregate' else ('window', ROWNUMBER, tuple(cols[:1]), ()), lit(1))
        if self.spec.kind(self.spec.norm_feature(f)) == 'boolean' and f[0] != 'alias':
            return ('expr', 'and', f, extra)
        return extra

    # -- feature-local mutations (operand kinds), anywhere in the tree
    def operand_mutations(self, ast) -> list:
        out = []
        sp = self.spec
        for path, sort, node in g.positions(ast):
            if sort != 'feature' or node[0] != 'expr' or node[1] == 'rownumber':
                continue
            op, args = node[1], node[2:]
            i = self.rng.randrange(len(args)) + 2
            kinds = [sp.kind(sp.norm_feature(a)) for a in args]
            if op in COMPARISON2:
                k = kinds[i - 2]
                other = lit('zz') if k != 'string' else lit(7)
                out.append(('comparison-kinds', g.replace(ast, path + (i,), other)))
                if k in NUMERIC:  # boundary: another numeric kind is compatible
                    out.append(('edge:comparison-numeric-mix', g.replace(ast, path + (i,), lit(1.5) if k != 'float' else lit(2))))
            elif op in COMPARISON1:
                out.append(('edge:isnull-any-kind', g.replace(ast, path + (2,), lit('zz'))))
            elif op in LOGICAL:
                out.append(('logical-kinds', g.replace(ast, path + (i,), self.rng.choice((lit(1), lit('t'))))))
            elif op in ARITHMETIC:
                out.append(('arithmetic-kinds', g.replace(ast, path + (i,), self.rng.choice((lit('zz'), lit(True))))))
            elif op == 'year':
                out.append(('year-kind', g.replace(ast, path + (2,), lit(2000))))
            out.append(('operand-not-operable', g.replace(ast, path + (i,), ('alias', node[i], 'op'))))
        return out

    # -- clause-level mutations of every query / join / set node
    def clause_mutations(self, ast) -> list:
        out = []
        sp = self.spec
        rng = self.rng
        for path, sort, node in g.positions(ast):
            if sort != 'source':
                continue
            tag = node[0]
            if tag == 'join':
                _, l, r, kind, cond = node
                if cond is None:
                    a, b = self.columns(l, 'integer'), self.columns(r, 'integer')
                    if a and b:
                        out.append(('cross-join-condition', g.replace(ast, path + (4,), ('expr', 'eq', a[0], b[0]))))
                    out.append(('cross-join-condition', g.replace(ast, path + (3,), rng.choice(g.JOIN_KINDS[:4]))))
                else:
                    out.append(('cross-join-condition', g.replace(ast, path + (4,), None)))
                    out.append(('cross-join-condition', g.replace(ast, path + (3,), 'cross')))
                    out.extend(self._condition_mutations(ast, path + (4,), cond, [l, r], 'join', l))
            elif tag == 'set':
                out.extend(self._set_mutations(ast, path, node))
            elif tag == 'query':
                out.extend(self._query_mutations(ast, path, node))
        return out

    def _condition_mutations(self, ast, path, cond, scope, clause, src) -> list:
        out = []
        rng = self.rng
        nums = [c for s in scope for c in self.columns(s, 'numeric')]
        anycols = [c for s in scope for c in self.columns(s)]
        for p in self.element_paths(cond):
            out.append((f'foreign-element:{clause}', g.replace(ast, path + p, self.foreign(scope, g.get(cond, p)))))
            out.append((f'unknown-element:{clause}', g.replace(ast, path + p + (2,), 'nope')))
        if nums:
            out.append((f'filter-not-boolean:{clause}', g.replace(ast, path, ('expr', 'add', rng.choice(nums), lit(1)))))
            out.append((f'filter-not-boolean:{clause}', g.replace(ast, path, rng.choice(nums))))
        out.append((f'filter-not-boolean:{clause}', g.replace(ast, path, rng.choice((lit(1), lit('t'))))))
        out.append((f'edge:literal-predicate:{clause}', g.replace(ast, path, lit(True))))
        out.append((f'filter-not-operable:{clause}', g.replace(ast, path, ('alias', cond, 'p'))))
        planted = self.plant(cond, 'aggregate', src)
        if planted is not None and clause != 'having':
            out.append((f'aggregate-in-condition:{clause}', g.replace(ast, path, planted)))
        elif planted is not None:
            out.append((f'edge:aggregate-in-having', g.replace(ast, path, planted)))
        planted = self.plant(cond, 'window', src)
        if planted is not None:
            out.append((f'window-in-condition:{clause}', g.replace(ast, path, planted)))
        if anycols:
            out.append((f'foreign-element:{clause}', g.replace(ast, path, ('expr', 'notnull', self.foreign(scope)))))
            out.append((f'unknown-element:{clause}', g.replace(ast, path, ('expr', 'notnull', ('elem', rng.choice(anycols)[1], 'nope')))))
            out.append((f'unknown-element:{clause}', g.replace(ast, path, ('elem', rng.choice(anycols)[1], 'nope'))))
        return out

    def _set_mutations(self, ast, path, node) -> list:
        out = []
        _, l, r, _ = node
        if r[0] == 'query' and r[2]:
            sel = r[2]
            if len(sel) > 1:
                out.append(('set-schemas-differ:permuted', g.replace(ast, path + (2, 2), tuple(reversed(sel)))))
                out.append(('set-schemas-differ:dropped', g.replace(ast, path + (2, 2), sel[:-1])))
            f = sel[0]
            out.append(('set-schemas-differ:renamed', g.replace(ast, path + (2, 2, 0), ('alias', f[1] if f[0] == 'alias' else f, 'renamed'))))
            name = Spec.name(f)
            if name is not None:
                base = f[1] if f[0] == 'alias' else f
                kind = self.spec.kind(self.spec.norm_feature(base))
                out.append(('set-schemas-differ:kind', g.replace(ast, path + (2, 2, 0), ('alias', ('cast', base, 'string' if kind != 'string' else 'integer'), name))))
                out.append(('edge:set-same-name-kind', g.replace(ast, path + (2, 2, 0), ('alias', ('cast', base, kind), name)) if isinstance(kind, str) else None))
        lsig = tuple(self.spec.sig(self.spec.norm_source(l)))
        out.append(('set-schemas-differ:other-table', g.replace(ast, path + (2,), self.rng.choice([t for t in CATALOG if t[2] != lsig]))))
        return [(label, m) for label, m in out if m is not None]

    def _query_mutations(self, ast, path, node) -> list:
        out = []
        rng = self.rng
        sp = self.spec
        _, src, sel, pre, grp, post, order, _ = node
        scope = [src]
        cols = self.columns(src)
        nums = self.columns(src, 'numeric')
        # selection
        for i, f in enumerate(sel):
            for p in self.element_paths(f):
                out.append(('foreign-element:select', g.replace(ast, path + (2, i) + p, self.foreign(scope, g.get(f, p)))))
                out.append(('unknown-element:select', g.replace(ast, path + (2, i) + p + (2,), 'nope')))
            if f[0] != 'alias':
                out.append(('edge:alias-in-select', g.replace(ast, path + (2, i), ('alias', f, 'sel'))))
            else:
                out.append(('edge:alias-of-alias', g.replace(ast, path + (2, i), ('alias', f, 'again'))))
        out.append(('foreign-element:select', g.replace(ast, path + (2,), sel + (self.foreign(scope),))))
        if cols:
            out.append(('unknown-element:select', g.replace(ast, path + (2,), sel + (('elem', cols[0][1], 'nope'),))))
        # where
        if pre is not None:
            out.extend(self._condition_mutations(ast, path + (3,), pre, scope, 'where', src))
        elif nums:
            c = rng.choice(nums)
            good = ('expr', 'gt', c, lit(1))
            base = g.replace(ast, path + (3,), good)
            out.append(('edge:added-where', base))
            out.extend(self._condition_mutations(base, path + (3,), good, scope, 'where', src))
        # grouping
        for i, f in enumerate(grp):
            out.append(('grouping-not-operable', g.replace(ast, path + (4, i), ('alias', f, 'grp'))))
            planted = self.plant(f, 'aggregate', src)
            if planted is not None:
                out.append(('aggregate-in-grouping', g.replace(ast, path + (4, i), planted)))
            planted = self.plant(f, 'window', src)
            if planted is not None:
                out.append(('window-in-grouping', g.replace(ast, path + (4, i), planted)))
            for p in self.element_paths(f):
                out.append(('foreign-element:groupby', g.replace(ast, path + (4, i) + p, self.foreign(scope, g.get(f, p)))))
                out.append(('unknown-element:groupby', g.replace(ast, path + (4, i) + p + (2,), 'nope')))
        if grp:
            free = [c for c in cols if c not in grp]
            if free:
                c = rng.choice(free)
                out.append(('non-aggregate-outside-grouping', g.replace(ast, path + (2,), sel + (c,))))
                out.append(('non-aggregate-outside-grouping', g.replace(ast, path + (2,), sel + (('alias', c, 'free'),))))
                if sp.kind(sp.norm_feature(c)) in NUMERIC:
                    out.append(('non-aggregate-outside-grouping', g.replace(ast, path + (2,), sel + (('expr', 'add', c, lit(1)),))))
                    out.append(('edge:aggregate-nested-in-arithmetic', g.replace(ast, path + (2,), sel + (('expr', 'add', ('expr', 'sum', c), lit(1)),))))
                    out.append(('edge:aggregate-nested-aliased', g.replace(ast, path + (2,), sel + (('alias', ('expr', 'mul', lit(2), ('expr', 'max', c)), 'm'),))))
                out.append(('edge:count-outside-grouping', g.replace(ast, path + (2,), sel + (('expr', 'count', c),))))
            out.append(('non-aggregate-outside-grouping', g.replace(ast, path + (2,), sel + (lit(1),))))
            out.append(('edge:grouped-feature-aliased', g.replace(ast, path + (2,), sel + (('alias', grp[0], 'g0'),))))
            # strip one aggregate from a selected feature
            for i, f in enumerate(sel):
                for p in self.expr_paths(f):
                    e = g.get(f, p)
                    if e[1] in AGGREGATE:
                        out.append(('non-aggregate-outside-grouping:stripped', g.replace(ast, path + (2, i) + p, e[2])))
                        break
            out.append(('non-aggregate-outside-grouping:no-selection', g.replace(ast, path + (2,), ())))
        elif cols and sel:
            c = rng.choice(cols)
            out.append(('added-grouping', g.replace(ast, path + (4,), (c,))))
            everything = tuple(dict.fromkeys((f[1] if f[0] == 'alias' else f) for f in sel))
            if all(not sp.has(f, 'aggregate') and not sp.has(f, 'window') for f in everything):
                out.append(('edge:group-by-all-selected', g.replace(ast, path + (4,), everything)))
        # having
        if post is not None:
            out.extend(self._condition_mutations(ast, path + (5,), post, scope, 'having', src))
        elif nums:
            c = rng.choice(nums)
            good = ('expr', 'gt', ('expr', 'sum', c), lit(1))
            base = g.replace(ast, path + (5,), good)
            out.append(('edge:having-without-grouping', base))
            out.append(('window-in-having', g.replace(ast, path + (5,), ('expr', 'gt', ('window', ROWNUMBER, (c,), ()), lit(1)))))
            out.append(('foreign-element:having', g.replace(ast, path + (5,), ('expr', 'gt', ('expr', 'sum', self.foreign(scope, c)), lit(1)))))
        # ordering
        for i, o in enumerate(order):
            out.append(('ordering-not-operable', g.replace(ast, path + (6, i, 1), ('alias', o[1], 'ord'))))
            for p in self.element_paths(o[1]):
                out.append(('foreign-element:orderby', g.replace(ast, path + (6, i, 1) + p, self.foreign(scope, g.get(o[1], p)))))
                out.append(('unknown-element:orderby', g.replace(ast, path + (6, i, 1) + p + (2,), 'nope')))
        out.append(('foreign-element:orderby', g.replace(ast, path + (6,), order + (('ord', self.foreign(scope), 'desc'),))))
        if cols:
            out.append(('edge:added-ordering', g.replace(ast, path + (6,), order + (('ord', rng.choice(cols), 'asc'),))))
        # the query used as a source itself
        named = sel and all(Spec.name(f) is not None for f in sel) and len({Spec.name(f) for f in sel}) == len(sel)
        if named:
            r = ('ref', node, 'sub')
            out.append(('edge:reference-of-query', g.replace(ast, path, query(r, tuple(('elem', r, Spec.name(f)) for f in sel)))))
            out.append(('foreign-element:reference-of-query', g.replace(ast, path, query(r, (('elem', ('ref', node, 'other'), Spec.name(sel[0])),)))))
            out.append(('unknown-element:reference-of-query', g.replace(ast, path, query(r, (('elem', r, 'nope'),)))))
            out.append(('edge:reference-of-reference', g.replace(ast, path, query(('ref', r, 'again'), (('elem', ('ref', node, 'again'), Spec.name(sel[0])),)))))
        if sel:
            # elements of the underlying origin stay available through a query (also behind an alias)
            inner = [e for f in sel for e in sp.elements(sp.norm_feature(f))]
            if inner:
                out.append(('edge:query-of-query', g.replace(ast, path, query(node, (inner[0],)))))
            hidden = [c for c in cols if c not in inner]
            if hidden:
                out.append(('foreign-element:query-of-query', g.replace(ast, path, query(node, (hidden[0],)))))
        return out

    def all(self, ast) -> list:
        muts = self.clause_mutations(ast) + self.operand_mutations(ast)
        seen, out = {ast}, []
        for label, m in muts:
            if m is not None and m not in seen:
                seen.add(m)
                out.append((label, m))
        return out


def corpus() -> list:
    """hand-picked boundary cases (label, ast): both sides of every rule, the interactions named in the property"""
    sid, sname, sscore, slevel, sact, sborn, ssch = (col(S, n) for n in ('id', 'name', 'score', 'level', 'active', 'born', 'school'))
    kid, kname, krank = (col(K, n) for n in ('id', 'name', 'rank'))
    gid, gtaken = col(G, 'id'), col(G, 'taken')
    cond = ('expr', 'eq', ssch, kid)
    j = ('join', S, K, 'inner', cond)
    unnamed = query(S, [('expr', 'add', sid, lit(1)), sname])
    named = query(S, [('alias', ('expr', 'add', sid, lit(1)), 'n'), sname])
    r = ('ref', named, 'r')
    ru = ('ref', unnamed, 'r')
    out = [
        ('conforming:plain', query(S, [sid, sname])),
        ('conforming:everything', query(j, [sname, ('alias', kname, 'school'), ('alias', ('expr', 'avg', sscore), 'avg')],
                                        ('expr', 'gt', slevel, lit(1)), [sname, kname], ('expr', 'gt', ('expr', 'count', sid), lit(2)),
                                        [('ord', sname, 'desc')], ('rows', 10, 0))),
        ('edge:unnamed-output', unnamed),
        ('edge:unnamed-output-literal', query(S, [lit(1)])),
        ('edge:reference-of-unnamed', query(ru, [('elem', ru, 'name')])),
        ('edge:reference-of-unnamed-all', query(ru)),
        ('edge:set-of-unnamed', ('set', unnamed, unnamed, 'union')),
        ('edge:set-of-named', ('set', named, named, 'union')),
        ('edge:reference-of-query', query(r, [('elem', r, 'n')], ('expr', 'gt', ('elem', r, 'n'), lit(1)))),
        ('edge:join-equal-names', j),
        ('edge:query-of-join-equal-names', query(j)),
        ('edge:reference-of-join-equal-names', query(('ref', j, 'j'), [('elem', ('ref', j, 'j'), 'rank')])),
        ('edge:duplicate-selection', query(S, [sid, sid])),
        ('set-schemas-differ:duplicate-selection', ('set', query(S, [sid, sid]), query(S, [sid]), 'union')),
        ('edge:set-equal-tables', ('set', K, C, 'intersection')),
        ('set-schemas-differ:tables', ('set', S, K, 'union')),
        ('set-schemas-differ:permuted', ('set', query(S, [sid, sname]), query(S, [sname, sid]), 'difference')),
        ('set-schemas-differ:same-names-other-kind', ('set', query(S, [sid]), query(G, [gid]), 'union')),
        ('edge:select-from-set', query(('set', query(S, [sid]), query(K, [kid]), 'union'), [kid])),
        ('edge:literal-predicate', query(S, [sid], lit(True))),
        ('filter-not-boolean:literal', query(S, [sid], lit(1))),
        ('edge:boolean-column-predicate', query(S, [sid], sact)),
        ('edge:having-without-grouping', query(S, [sid], None, (), ('expr', 'gt', ('expr', 'count', sid), lit(1)))),
        ('window-in-having', query(S, [sid], None, (), ('expr', 'gt', ('window', ROWNUMBER, (sid,), ()), lit(1)))),
        ('window-in-condition:where', query(S, [sid], ('expr', 'gt', ('window', ROWNUMBER, (sid,), ()), lit(1)))),
        ('edge:window-selected', query(S, [('alias', ('window', ROWNUMBER, (slevel,), (('ord', sid, 'asc'),)), 'rn')])),
        ('edge:window-aggregate-selected', query(S, [('alias', ('window', ('expr', 'sum', sscore), (slevel,), ()), 'w')])),
        ('non-aggregate-outside-grouping:window', query(S, [slevel, ('alias', ('window', ('expr', 'sum', sscore), (slevel,), ()), 'w')], None, [slevel])),
        ('edge:grouping-by-expression', query(S, [('alias', ('expr', 'year', sborn), 'y'), ('alias', ('expr', 'count', sid), 'n')], None, [('expr', 'year', sborn)])),
        ('non-aggregate-outside-grouping:expression-differs', query(S, [('alias', ('expr', 'add', slevel, lit(1)), 'l')], None, [slevel])),
        ('edge:comparison-date-date', query(S, [sid], ('expr', 'lt', sborn, sborn))),
        ('comparison-kinds:date-timestamp', query(('join', S, G, 'inner', ('expr', 'eq', sid, col(G, 'student'))), [sid], ('expr', 'lt', sborn, gtaken))),
        ('edge:year-of-timestamp', query(G, [('alias', ('expr', 'year', gtaken), 'y')])),
        ('edge:comparison-int-float', query(S, [sid], ('expr', 'ge', sid, sscore))),
        ('comparison-kinds:int-string', query(S, [sid], ('expr', 'eq', sid, sname))),
        ('comparison-kinds:bool-int', query(S, [sid], ('expr', 'eq', sact, lit(1)))),
        ('edge:cast-makes-comparable', query(S, [sid], ('expr', 'eq', ('cast', sid, 'string'), sname))),
        ('edge:cast-of-alias', query(S, [('alias', ('cast', ('alias', sid, 'x'), 'string'), 'y')])),
        ('edge:arithmetic-kind', query(S, [('alias', ('expr', 'add', sid, sscore), 'a'), ('alias', ('expr', 'add', sscore, sid), 'b'),
                                           ('alias', ('expr', 'add', sid, ('cast', sid, 'decimal')), 'c'), ('alias', ('expr', 'add', ('cast', sid, 'decimal'), sid), 'd'),
                                           ('alias', ('expr', 'ceil', sscore), 'e'), ('alias', ('expr', 'abs', sscore), 'f'), ('alias', ('expr', 'avg', sid), 'g')])),
        ('cross-join-condition:cross-with', ('join', S, K, 'cross', cond)),
        ('cross-join-condition:inner-without', ('join', S, K, 'inner', None)),
        ('edge:cross', query(('join', S, K, 'cross', None), [sid, krank])),
        ('edge:self-join-by-reference', query(('join', S, ('ref', S, 'other'), 'left', ('expr', 'eq', sid, ('elem', ('ref', S, 'other'), 'id'))),
                                              [sid, ('alias', ('elem', ('ref', S, 'other'), 'name'), 'other')])),
        ('foreign-element:self-join-without-reference-name', query(('join', S, ('ref', S, 'other'), 'left', ('expr', 'eq', sid, ('elem', ('ref', S, 'another'), 'id'))), [sid])),
        ('edge:join-with-query-side', ('join', S, query(K, [kid, krank]), 'inner', ('expr', 'eq', ssch, kid))),
        ('edge:element-of-query-origin', query(query(S, [sid]), [('elem', query(S, [sid]), 'id')])),
        ('unknown-element:comparison', query(S, [sid], ('expr', 'gt', col(S, 'nope'), lit(1)))),
        ('unknown-element:isnull', query(S, [sid], ('expr', 'isnull', col(S, 'nope')))),
        ('unknown-element:count', query(S, [('alias', ('expr', 'count', col(S, 'nope')), 'n')])),
        ('unknown-element:year', query(S, [('alias', ('expr', 'year', col(S, 'nope')), 'n')])),
        ('unknown-element:bare-filter', query(S, [sid], col(S, 'nope'))),
        ('unknown-element:join', ('join', S, K, 'inner', ('expr', 'eq', col(S, 'nope'), kid))),
        # C08: -1 and -2 hash alike, so do the two references; the foreign element passes a hash-equality subset test
        ('foreign-element:hash-collision', query(('ref', query(S, [sid], ('expr', 'gt', sid, lit(-1))), 'r'),
                                                 [('elem', ('ref', query(S, [sid], ('expr', 'gt', sid, lit(-2))), 'r'), 'id')])),
    ]
    return out


class Small:
    """Statements over a reduced alphabet (two tables, ~20 features): every clause takes every pool item."""

    A = ('table', 'A', (('a', 'integer'), ('b', 'string')))
    B = ('table', 'B', (('a', 'integer'), ('c', 'float')))

    def __init__(self):
        A, B = self.A, self.B
        a, b, ba, bc = col(A, 'a'), col(A, 'b'), col(B, 'a'), col(B, 'c')
        self.sources = [A, ('ref', A, 'r'), ('join', A, B, 'inner', ('expr', 'eq', a, ba)), ('join', A, B, 'cross', None),
                        query(A, [a, b]), query(A, [('alias', ('expr', 'add', a, lit(1)), 'x')])]
        self.pool = [a, b, bc, ('elem', ('ref', A, 'r'), 'a'), lit(1), lit(True), ('expr', 'add', a, lit(1)), ('expr', 'gt', a, lit(1)),
                     ('expr', 'gt', b, lit(1)), ('expr', 'eq', b, lit('x')), ('expr', 'sum', a), ('expr', 'count', b),
                     ('expr', 'gt', ('expr', 'sum', a), lit(1)), ('alias', a, 'x'), ('alias', ('expr', 'sum', a), 's'),
                     ('expr', 'and', ('expr', 'gt', a, lit(1)), lit(True)), ('expr', 'and', a, lit(True)),
                     ('expr', 'gt', ('window', ROWNUMBER, (a,), ()), lit(1)), ('alias', ('expr', 'gt', a, lit(1)), 'p'),
                     ('expr', 'add', ('expr', 'max', a), lit(1)), ('expr', 'gt', bc, lit(1)), ('cast', a, 'string')]

    def tables(self):
        return (self.A, self.B)

    def single_clause(self) -> list:
        out = []
        for s in self.sources:
            for f in self.pool:
                out.append(('small:select', query(s, [f])))
                out.append(('small:where', query(s, (), f)))
                out.append(('small:groupby', query(s, (), None, [f])))
                out.append(('small:having', query(s, (), None, (), f)))
                out.append(('small:orderby', query(s, (), None, (), None, [('ord', f, 'asc')])))
        for f in self.pool:
            for kind in ('inner', 'cross', 'full'):
                out.append(('small:join', ('join', self.A, self.B, kind, f)))
        for x in self.sources:
            for y in self.sources:
                out.append(('small:set', ('set', x, y, 'union')))
        return out

    def grouped(self) -> list:
        """selection x grouping: every pair (with grouping every selected feature outside it needs an aggregate)"""
        out = []
        for s in self.sources[:3]:
            for f in self.pool:
                for h in self.pool:
                    out.append(('small:select-groupby', query(s, [f], None, [h])))
        return out

    def random(self, rng):
        s = rng.choice(self.sources)
        pick = lambda: rng.choice(self.pool)  # noqa: E731
        sel = tuple(pick() for _ in range(rng.choice((0, 1, 1, 2))))
        pre = pick() if rng.random() < 0.4 else None
        grp = tuple(pick() for _ in range(rng.choice((0, 0, 1, 1, 2))))
        post = pick() if rng.random() < 0.3 else None
        order = tuple(('ord', pick(), rng.choice(('asc', 'desc'))) for _ in range(rng.choice((0, 0, 1))))
        return ('small:random', query(s, sel, pre, grp, post, order))


SMALL = Small()


def let_small(line) -> tuple:
    return ('let', tuple((t[1], t) for t in CATALOG + SMALL.tables()), line)


def short_small(ast):
    if isinstance(ast, tuple):
        if ast in CATALOG or ast in SMALL.tables():
            return '$' + ast[1]
        return tuple(short_small(a) for a in ast)
    return ast


# ---- the check ---------------------------------------------------------------------------------------------------------
class C07(fw.Check):
    ID = 'C07'
    LEAN_MODULES = ['ForML.Props.C07']
    DRIVER = 'drv_c07'
    RULE = ('candidate statements over a 4-table catalog: (a) a hand-picked corpus of boundary cases on both sides of '
            'every rule, (b) conforming statements from the typed generator of props/dslgen.py (queries over tables, '
            'references, joins, references of queries, sets; depth 1-2), (c) for each of them every single-rule violation at '
            'every applicable position (foreign / unknown element in select, where, groupby, having, orderby, join '
            'condition; non-boolean / aliased filter; aggregate or window planted in where, grouping, join condition, '
            'having; non-aggregated selection outside the grouping incl. stripped aggregates; operand kinds of every '
            'comparison / arithmetic / logical / Year node; aliased operands, grouping and ordering terms; set operands '
            'permuted, dropped, renamed, re-typed; cross join with / other joins without condition) and boundary-keeping '
            'variants (literal predicates, aggregates nested in arithmetic, alias of a grouped feature, reference of a '
            'query / of a reference, numeric kind mixes), (d) all single-clause statements and all selection x grouping '
            'pairs over a reduced alphabet (6 sources x 22 features) plus random multi-clause ones. Each candidate is '
            'built through the public API in one of 16 styles (constructor / chained, operators / classes, origin[name] / '
            'Element, join kind enum / str). A case is distinct by its AST and non-trivial when it has a clause beyond '
            'the bare source. Oracle: the documented rules evaluated on the AST (Spec), independent of the Lean model.')
    TRUSTED = [
        'equality of features inside frozenset.issubset / set.difference is hash equality (C08); construct is '
        'proved for structural equality and run with the free hash environment; candidates whose verdict '
        'depends on a hash collision are counted, not judged',
        'the Builder of props/dslgen.py (AST -> public API calls) and to_ast (object -> AST)',
    ]
    ASSUMPTIONS = [
        'window specifications are opaque (the documented visitor does not enter them): features inside '
        'function / partition / ordering of a window are not subject to the element and aggregate rules; window frames '
        'are not modelled',
        'a candidate is a script of well-typed API calls: operand counts match the classes, directions are '
        'asc/desc, reference names are non-empty, literals are int/bool/str/float, tables are real dsl.Schema classes',
        'cumulative = aggregate or window: "aggregates do not appear in where-conditions, grouping or join conditions" is '
        'read as the code documents it (series.Cumulative, "expressions involving cross-row operations")',
    ]

    # ---- tables re-extracted from the live objects ---------------------------------------------------------------------
    def gen_tables(self):
        if fw.REPO not in sys.path:
            sys.path.insert(0, fw.REPO)
        from forml.io import dsl
        from forml.io.dsl import function
        from forml.io.dsl._struct import kind as kindmod
        from forml.io.dsl._struct import series

        def b(x) -> str:
            return 'true' if x else 'false'

        lines = ['/- GENERATED by harness/props/c07.py from the live objects of forml/io/dsl/_struct/{kind,series,frame}.py and',
                 '   forml/io/dsl/function — do not edit. -/', 'import ForML.Model.Grammar', 'namespace ForML.Generated.C07', 'open ForML.Dsl', '',
                 '/-- primitive kinds: (kind, `__rank__`, `Numeric.match`, `Date.match`, `Boolean.match`) -/',
                 'def kindTable : List (Kind × Nat × Bool × Bool × Bool) := [']
        rows = []
        for name in g.PRIMITIVES:
            cls = getattr(kindmod, name.capitalize(), None)
            if cls is None:
                continue
            k = cls()
            rows.append(f'  (.{name}, {int(k.__rank__)}, {b(kindmod.Numeric.match(k))}, {b(kindmod.Date.match(k))}, {b(kindmod.Boolean.match(k))})')
        lines += [',\n'.join(rows) + ']', '',
                  '/-- names of all non-abstract primitive kinds of the module (sorted) -/',
                  'def primitiveKinds : List String := [' + ', '.join(f'"{n}"' for n in sorted(k.__name__ for k in kindmod.Primitive.__subkinds__)) + ']', '',
                  '/-- ranks of compound kinds: `Array(Integer)`, `Map(Integer, String)`, `Struct(a=.., b=.., c=..)` -/',
                  f'def compoundRanks : List Nat := [{dsl.Array(dsl.Integer()).__rank__}, {dsl.Map(dsl.Integer(), dsl.String()).__rank__}, '
                  f'{dsl.Struct(a=dsl.Integer(), b=dsl.Integer(), c=dsl.Integer()).__rank__}]', '',
                  '/-- expression classes: (op, number of operands, family of constructor checks / kind, subclass of Aggregate) -/',
                  'def opTable : List (Op × Nat × OpGroup × Bool) := [']
        rows = []
        for op in g.OPS:
            cls = getattr(function, g.OP_CLASS[op], None)
            if cls is None:
                continue
            if not issubclass(cls, series.Feature):
                group, arity = 'rownumber', 0
            else:
                arity = 2 if issubclass(cls, series.Bivariate) else 1 if issubclass(cls, series.Univariate) else 99
                own_kind = next((c.__dict__['kind'] for c in cls.__mro__ if 'kind' in c.__dict__), None)
                integer = isinstance(own_kind, kindmod.Integer)
                if issubclass(cls, series.Logical):
                    group = 'logic'
                elif issubclass(cls, series.Comparison):
                    group = 'cmp2' if arity == 2 else 'cmp1'
                elif issubclass(cls, series.Arithmetic):
                    group = 'arithInt' if integer else 'arith'
                elif '__new__' in cls.__dict__ and integer:
                    group = 'year'
                elif issubclass(cls, series.Aggregate) and integer:
                    group = 'count'
                else:
                    group = 'rownumber'
            agg = isinstance(cls, type) and issubclass(cls, series.Aggregate)
            rows.append(f'  (.{op}, {arity}, .{group}, {b(agg)})')
        lines += [',\n'.join(rows) + ']', '',
                  '/-- `Join.Kind`, `Set.Kind` values and the accepted spellings of `Ordering.Direction` -/',
                  'def joinKinds : List String := [' + ', '.join(f'"{k.value}"' for k in dsl.Join.Kind) + ']',
                  'def setKinds : List String := [' + ', '.join(f'"{k.value}"' for k in dsl.Set.Kind) + ']',
                  'def directions : List (String × String) := [' + ', '.join(
                      f'("{a}", "{dsl.Ordering.Direction(a).value}")' for a in ('asc', 'ascending', 'desc', 'descending', 'ASC', 'Desc')) + ']',
                  '', 'end ForML.Generated.C07', '']
        return {'ForML/Generated/C07Tables.lean': '\n'.join(lines)}

    # ---- generation ------------------------------------------------------------------------------------------------
    def candidates(self) -> list:
        r = self.rng
        spec = Spec()
        mut = Mutator(r, spec)
        gen = g.Gen(r, small_ints=True)
        out: list = []

        def add(label, ast, single=None):
            out.append({'label': label, 'ast': ast, 'variant': r.choice(VARIANTS)})

        for label, ast in corpus():
            for variant in (('ctor', 'class', 'ctor', False), ('chain', 'operator', 'ctor', True)):
                out.append({'label': label, 'ast': ast, 'variant': variant})
        nbase = self.n(70, 900)
        per_base = self.n(14, 40)
        for _ in range(nbase):
            base = gen.statement(r.choice((1, 1, 2) if self.quick else (1, 1, 2, 2, 3)))
            if spec.violations(base):
                add('generated:nonconforming', base)  # the shared generator is typed but not the judge
                continue
            add('conforming', base)
            muts = mut.all(base)
            if len(muts) > per_base:
                muts = r.sample(muts, per_base)
            for label, m in muts:
                add(label, m)
        for label, ast in SMALL.single_clause():
            add(label, ast)
        grouped = SMALL.grouped()
        for label, ast in (grouped if not self.quick else r.sample(grouped, 300)):
            add(label, ast)
        for _ in range(self.n(400, 12000)):
            add(*SMALL.random(r))
        # builder style must not matter: the usable getitem style needs resolvable names
        for c in out:
            via, ops, elem, kindstr = c['variant']
            if elem == 'getitem' and not self._getitem_ok(c['ast'], spec):
                c['variant'] = (via, ops, 'ctor', kindstr)
        return out

    @staticmethod
    def _getitem_ok(ast, spec) -> bool:
        """`origin[name]` is the documented way to an element only for tables / references with that output"""
        for e in elements_in(ast):
            o = e[1]
            if o[0] not in ('table', 'ref'):
                return False
            try:
                sig = spec.sig(spec.norm_source(o))
            except Exception:  # pylint: disable=broad-except
                return False
            names = [n for n, _ in sig]
            if e[2] not in names or None in names or len(set(names)) != len(names):
                return False
        return True

    # ---- running ---------------------------------------------------------------------------------------------------
    def _impl_all(self, cases: list) -> list:
        if len(cases) < 64:
            return _impl_chunk(cases)
        chunks = [cases[i:i + 100] for i in range(0, len(cases), 100)]
        procs = min(12, os.cpu_count() or 2, len(chunks))
        ctx = multiprocessing.get_context('fork')
        with ctx.Pool(procs, maxtasksperchild=40) as pool:
            results = pool.map(_impl_chunk, chunks, chunksize=1)
        return [o for chunk in results for o in chunk]

    def _model_all(self, cases: list) -> list:
        lines = [sexp.dumps(let_small(('stmt', short_small(c['ast'])))) for c in cases]
        answers = self.model(lines)
        out = []
        for a in answers:
            x = sexp.loads(a)
            if not isinstance(x, list) or x[0] != 'stmt':
                raise fw.MachineryError(f'model driver answered {a[:200]}')
            res, sch, wf, same = x[1], x[2], x[3], x[4]
            m = {'outcome': res[0], 'wf': wf == 'true', 'same': same == 'true',
                 **dict(zip(('normal', 'tame', 'resolvable', 'plain'), (f == 'true' for f in x[5])))}
            if res[0] == 'ok':
                m['stored'] = res[1]
                m['schema'] = [sch[0], [(n, k) for n, k in sch[1]]] if sch[0] == 'ok' else [sch[0], sch[1]]
            else:
                m['err'] = res[1]
            out.append(m)
        return out

    # ---- judging ---------------------------------------------------------------------------------------------------
    @staticmethod
    def _features_of(ast) -> dict:
        """facts about the AST used to attribute a violation to a root cause"""
        spec = Spec()
        unnamed = dup = False
        for s in sources_in(ast):
            try:
                sig = spec.sig(spec.norm_source(s))
            except Exception:  # pylint: disable=broad-except
                continue
            names = [n for n, _ in sig]
            unnamed |= None in names
            dup |= len(set(names)) != len(names)
        unknown = any(e[2] not in {n for n, _ in spec.sig(spec.norm_source(e[1]))} for e in elements_in(ast))
        return {'unnamed': unnamed, 'dup': dup, 'unknown': unknown}

    def judge(self, case: dict, impl: dict) -> list:
        """[(what, signature)] — the property evaluated on what the real code did with the candidate"""
        ast = case['ast']
        spec = Spec()
        broken = spec.violations(ast)
        rules = sorted({r for r, _ in broken})
        out = []
        facts = None

        def attribute(default: str) -> str:
            nonlocal facts
            facts = facts or self._features_of(ast)
            if impl.get('err') == 'recursion' or impl.get('schema', [None, None])[1] == 'recursion':
                if facts['unnamed']:
                    return 'schema-unnamed-output'
            if impl.get('err') == 'lookup' and facts['unknown']:
                return 'unknown-element-keyerror'
            if facts['dup']:
                emu = Spec(collapse=True)
                if (not emu.violations(ast)) == (impl['outcome'] == 'ok'):
                    if impl['outcome'] != 'ok' or impl['schema'][0] != 'ok' or \
                            [tuple(x) for x in impl['schema'][1]] == list(emu.expected_schema(ast)):
                        return 'schema-duplicate-names'
            return default

        if not broken:
            if impl['outcome'] != 'ok':
                what = f'a conforming statement is rejected with {impl["cls"]}'
                out.append((what, attribute(f'conforming-rejected:{impl["err"]}')))
            else:
                want = list(spec.expected_schema(ast))
                got = impl['schema']
                if got[0] != 'ok':
                    out.append((f'.schema of a constructed statement raises ({got[1]})', attribute(f'schema-raises:{got[1]}')))
                elif [tuple(x) for x in got[1]] != want and not any(n is None for n, _ in want):
                    out.append((f'.schema lists {len(got[1])} fields {got[1][:4]} for the {len(want)} output features {want[:4]}',
                                attribute('schema-differs')))
                elif any(n is None for n, _ in want):
                    # an un-named output: its position and kind must still be listed
                    if len(got[1]) != len(want) or [k for _, k in got[1]] != [k for _, k in want]:
                        out.append(('.schema does not list the un-named output features', attribute('schema-differs')))
        else:
            if impl['outcome'] == 'ok':
                out.append((f'a statement breaking {",".join(rules)} is constructed', attribute('accepted:' + ','.join(rules))))
            elif impl['err'] != 'grammar':
                out.append((f'a statement breaking {",".join(rules)} raises {impl["cls"]} instead of GrammarError',
                            attribute(f'wrong-exception:{impl["err"]}:' + ','.join(rules))))
        return out

    @staticmethod
    def _compare(impl: dict, model: dict) -> list:
        """[(what, impl, model)] — observable behaviour of the real constructors vs the Lean model"""
        outcome = 'ok' if impl['outcome'] == 'ok' else impl['err']
        mo = 'ok' if model['outcome'] == 'ok' else model['err']
        if mo != outcome:
            return [('construction outcome', outcome + ':' + impl.get('msg', ''), mo)]
        out = []
        if outcome == 'ok':
            stored = sexp.loads(sexp.dumps(impl['stored'])) if not isinstance(impl['stored'], str) else impl['stored']
            if stored != model['stored']:
                out.append(('stored structure', sexp.dumps(impl['stored'])[:300], sexp.dumps(model['stored'])[:300]))
            isch = [impl['schema'][0], [[n, sexp.loads(sexp.dumps(k))] for n, k in impl['schema'][1]] if impl['schema'][0] == 'ok' else impl['schema'][1]]
            msch = [model['schema'][0], [[n, k] for n, k in model['schema'][1]] if model['schema'][0] == 'ok' else model['schema'][1]]
            if isch != msch:
                out.append(('.schema', isch, msch))
        return out

    def _selftest(self, cases: list, impls: list) -> None:
        """planted divergence: the model is asked about a *different* statement (one clause broken) than the one the
        implementation built — the comparison has to notice every time"""
        spec = Spec()
        mut = Mutator(self.rng, spec)
        picked = []
        for case, impl in zip(cases, impls):
            if impl['outcome'] != 'ok' or case['label'] != 'conforming':
                continue
            wrong = [m for label, m in mut.all(case['ast']) if spec.violations(m) and not label.startswith('unknown')]
            if wrong:
                picked.append((impl, {'label': 'selftest', 'ast': self.rng.choice(wrong), 'variant': case['variant']}))
            if len(picked) >= 25:
                break
        answers = self._model_all([c for _, c in picked])
        missed = [c for (impl, c), m in zip(picked, answers) if m['same'] and not self._compare(impl, m)]
        self.extra['planted_divergences'] = {'planted': len(picked), 'noticed': len(picked) - len(missed)}
        if missed or not picked:
            raise fw.MachineryError(f'planted model/implementation divergence not noticed: {missed[:1]}')

    @staticmethod
    def _nodes(ast) -> int:
        return 1 + sum(C07._nodes(a) for a in ast if isinstance(a, tuple)) if isinstance(ast, tuple) else 0

    def correspondence(self):
        cases = self.candidates()
        impls = self._impl_all(cases)
        models = self._model_all(cases)
        spec = Spec()
        self.extra['verdicts'] = {}
        verdicts: collections.Counter = collections.Counter()
        domain: collections.Counter = collections.Counter()
        for i, (case, impl, model) in enumerate(zip(cases, impls, models)):
            ast = case['ast']
            broken = spec.violations(ast)
            conforming = not broken
            key = ('stmt', ast)
            shape = case['label'].split(':')[0] + (':' + case['label'].split(':')[1] if case['label'].startswith(('small', 'edge')) and ':' in case['label'] else '')
            outcome = 'ok' if impl['outcome'] == 'ok' else impl['err']
            verdicts[('conforming' if conforming else 'violating') + ' -> ' + outcome] += 1
            nontrivial = ast[0] != 'table' and self._nodes(ast) >= 4
            self.case(key, shape, nontrivial=nontrivial,
                      sample={'label': case['label'], 'stmt': sexp.dumps(short_small(ast))[:240], 'impl': outcome,
                              'oracle': 'conforming' if conforming else sorted({r for r, _ in broken})} if i % 211 == 0 else None)
            # model vs implementation
            if not model['same']:
                self.histogram['(verdict depends on a hash collision: not judged)'] += 1
                continue
            mo = 'ok' if model['outcome'] == 'ok' else model['err']
            if model['normal'] and model['tame']:
                # the region of C07_iff_partial / C07_stored (and, if resolvable, of C07_error_kind_partial): what the
                # compiled model computes must be what the theorems say
                domain['iff'] += 1
                want = 'ok' if model['wf'] else ('grammar' if model['resolvable'] else None)
                domain['error_kind'] += model['resolvable']
                if (mo == 'ok') != model['wf'] or (want is not None and mo != want):
                    self.diverge('driver vs theorem C07_construct_eq', {'case': _jsonable(case)}, want, mo)
                if mo == 'ok' and model['plain']:
                    domain['schema'] += 1
                    if model['schema'][0] != 'ok':
                        self.diverge('driver vs theorem C07_schema_partial', {'case': _jsonable(case)}, 'ok', model['schema'])
            for what, a, b in self._compare(impl, model):
                self.diverge(what, {'case': _jsonable(case)}, a, b)
            # Lean WellFormed vs the Python oracle (two independent transcriptions of the documented rules)
            if model['wf'] != conforming and self._normal(ast, spec):
                self.diverge('Lean WellFormed vs Python oracle', {'case': _jsonable(case)}, 'conforming' if conforming else broken[:3], model['wf'])
            # the property on the real code
            for what, sig in self.judge(case, impl):
                self.violate(f'{what} [{case["label"]}]', {'kind': 'stmt', **_jsonable(case)}, sig,
                             detail={'impl': {k: v for k, v in impl.items() if k != 'stored'}, 'oracle': broken[:5]})
        self.extra['verdicts'] = {k: v for k, v in sorted(verdicts.items())}
        self.extra['cases_in_theorem_domain'] = dict(domain)
        if not self.quick:
            self._selftest(cases, impls)

    @staticmethod
    def _normal(ast, spec) -> bool:
        """the AST is its own normal form (the Lean predicate is stated for those)"""
        try:
            return spec.norm_source(ast) == ast
        except Exception:  # pylint: disable=broad-except
            return False

    def search(self, reason):
        # widen around the diverging candidates: all their single-rule mutations, judged on the real code
        spec = Spec()
        mut = Mutator(self.rng, spec)
        seeds = [tuplify(d.case['case']['ast']) for d in self.divergences if isinstance(d.case, dict) and 'case' in d.case][:30]
        cases = []
        if not seeds:  # a proof obligation broke: re-judge a fresh, larger sample
            gen = g.Gen(self.rng, small_ints=True)
            seeds = [gen.statement(2) for _ in range(60)]
        for s in seeds:
            cases.append({'label': 'search:seed', 'ast': s, 'variant': ('ctor', 'class', 'ctor', False)})
            try:
                for label, m in mut.all(s)[:60]:
                    cases.append({'label': 'search:' + label, 'ast': m, 'variant': ('ctor', 'class', 'ctor', False)})
            except Exception:  # pylint: disable=broad-except
                pass
        for case, impl in zip(cases, self._impl_all(cases)):
            for what, sig in self.judge(case, impl):
                self.violate(f'{what} [{case["label"]}]', {'kind': 'stmt', **_jsonable(case)}, sig)
        self.notes.append(f'failing-input search ({reason}): {len(cases)} candidates around {len(seeds)} seeds')

    def replay_finding(self, entry):
        w = entry['witness']
        if w.get('kind') != 'stmt':
            return None
        case = {'label': w.get('label', 'replay'), 'ast': tuplify(w['ast']), 'variant': tuple(w.get('variant', ('ctor', 'class', 'ctor', False)))}
        impl = run_impl(case)
        wanted = entry.get('signature')
        for what, sig in self.judge(case, impl):
            if wanted is None or sig == wanted:
                return fw.Violation(what, w, sig)
        return None


def _jsonable(case: dict) -> dict:
    return {'label': case['label'], 'ast': case['ast'], 'variant': list(case['variant'])}


if __name__ == '__main__':
    raise SystemExit(fw.run(C07))
