#!/bin/bash
# usage: tools/seed_pipeline.sh Cxx [tag]  — confirm /tmp/seed-cxx-<tag>/m1..m3 (parallel), keep them, then run the check against each kept one
pid=$1; tag=${2:-a}; l=$(echo $pid | tr A-Z a-z); cd "$(dirname "$0")/.."
mkdir -p /tmp/chk/seed
sfx=""; [ "$tag" != "a" ] && sfx="$tag"
for k in 1 2 3; do
  [ -d /tmp/seed-$l-$tag/m$k ] && python3 tools/seed_confirm.py /tmp/seed-$l-$tag/m$k $pid-m$sfx$k > /tmp/chk/seed/$pid-m$sfx$k.log 2>&1 &
done
wait
cat /tmp/chk/seed/$pid-m$sfx*.log | cut -c1-90
ids=$(for k in 1 2 3; do [ -d seeded/$pid-m$sfx$k ] && echo $pid-m$sfx$k; done)
python3 tools/seeded_run.py --worktree $ids
