#!/usr/bin/env python3
"""Assemble MANIFEST.json from manifest.d/*.json fragments (one per claimed property) and
manifest.d/not_applicable.json; every property of properties.jsonl must be in exactly one of them."""
import glob
import json
import os
import sys

ROOT = os.path.abspath(os.path.join(os.path.dirname(__file__), '..'))
PY = '/venv/bin/python'
KF_COMMENT = ('Genuine defects of formlio/forml recorded rather than repaired (status=finding) or repaired by a fix: commit '
              '(status=fixed; a fixed entry suppresses nothing). Assembled from findings.d/*.json by tools/mkmanifest.py; never '
              'written at run time. A violation is suppressed only when its signature (root-cause class decided by the '
              "check's oracle on the minimised witness) equals a listed finding's; see DESIGN.md 2.4.")


def main() -> int:
    props = [json.loads(line)['id'] for line in open(os.path.join(ROOT, 'properties.jsonl')) if line.strip()]
    checks = []
    for path in sorted(glob.glob(os.path.join(ROOT, 'manifest.d', 'C*.json'))):
        frag = json.load(open(path))
        pid = frag['property_id']
        entry = {
            'property_id': pid,
            'quick_cmd': f'{PY} harness/check.py {pid} --tier quick',
            'thorough_cmd': f'{PY} harness/check.py {pid} --tier thorough',
            'evidence_file': f'evidence/{pid}.json',
            'replay_cmd_template': f'{PY} harness/check.py {pid} --replay {{path}}',
            'engine': 'lean4-model+correspondence',
        }
        entry.update(frag)
        checks.append(entry)
    na_path = os.path.join(ROOT, 'manifest.d', 'not_applicable.json')
    na = json.load(open(na_path)) if os.path.exists(na_path) else {}
    claimed = {c['property_id'] for c in checks}
    not_applicable = [{'property_id': p, 'reason': na.get(p, 'check not built yet (planned in DESIGN.md section 5; no technique switch)')}
                      for p in props if p not in claimed]
    manifest = {
        'version': 1,
        'setup_cmd': 'bash harness/setup.sh',
        'hooks': {
            'guard': 'FORML_VERIF',
            'enable': 'no hooks are compiled into /repo; checks import forml from /repo as it is and observe it from outside',
            'baseline_off_cmd': 'cd /repo && /venv/bin/python -m pytest -ra -q -p no:cacheprovider --timeout=900 --continue-on-collection-errors',
            'source_commits': [],
            'add_only': True,
        },
        'engines': [{
            'name': 'lean4-model+correspondence',
            'path': 'harness/check.py',
            'serves_properties': sorted(claimed),
            'kind_free_text': 'Lean 4 theorems over hand-written executable models (lean/ForML), tables regenerated from /repo, '
                              'differential correspondence model<->implementation through a line-protocol driver, oracle-based '
                              'failing-input search, known-findings replay',
        }],
        'checks': checks,
        'not_applicable': not_applicable,
        'notes': 'See DESIGN.md. KNOWN_FINDINGS.json lists genuine defects (finding / fixed). Exit 2 = machinery error.',
    }
    findings = []
    for path in sorted(glob.glob(os.path.join(ROOT, 'findings.d', 'C*.json'))):
        findings.extend(json.load(open(path)))
    with open(os.path.join(ROOT, 'KNOWN_FINDINGS.json'), 'w') as f:
        json.dump({'comment': KF_COMMENT, 'findings': findings}, f, indent=1)
        f.write('\n')
    with open(os.path.join(ROOT, 'MANIFEST.json'), 'w') as f:
        json.dump(manifest, f, indent=1)
        f.write('\n')
    print(f'MANIFEST.json: {len(checks)} checks, {len(not_applicable)} not claimed')
    import subprocess
    dirty = subprocess.run('git -C /repo status --porcelain --untracked-files=no', shell=True, capture_output=True, text=True).stdout.strip()
    if dirty:
        print('SOURCE_FINGERPRINT.json NOT rewritten: /repo has local modifications')
    else:
        head = subprocess.run('git -C /repo rev-parse --short HEAD', shell=True, capture_output=True, text=True).stdout.strip()
        # digests depend on the interpreter's AST: computed by the interpreter that runs the checks
        subprocess.run([PY, '-c', f"import sys; sys.path.insert(0, {os.path.join(ROOT, 'harness')!r}); "
                                  f"from core import fingerprint; fingerprint.write('/repo', {head!r})"], check=True)
        print(f'SOURCE_FINGERPRINT.json: /repo {head}')
    return 0


if __name__ == '__main__':
    sys.exit(main())
