#!/bin/bash
# usage: tools/seed_round.sh Cxx tag   — prepare workspace /tmp/seed-cxx-<tag> with TASK.md listing mechanisms already taken
pid=$1; tag=$2; l=$(echo $pid | tr A-Z a-z); cd "$(dirname "$0")/.."
d=$(tools/seed_prepare.sh $pid $tag)
sed "s#WS#$d#g" tools/seed/PROMPT.md > $d/TASK.md
python3 - "$pid" "$d" <<'P'
import glob, json, sys, os
pid, d = sys.argv[1:3]
taken = []
for m in sorted(glob.glob(f'/verif/seeded/{pid}-m*/meta.json')):
    meta = json.load(open(m))
    files = ', '.join(meta.get('files_changed', []) or [])
    taken.append(f"* {files}: {(meta.get('summary') or meta.get('what_it_breaks') or '')[:300]}")
if taken:
    open(f'{d}/TASK.md', 'a').write('\n## Already taken by earlier participants — do NOT repeat these mechanisms or near variants of them\n'
        + '\n'.join(taken) + '\nFind different sites, different clauses of the property, different triggers.\n')
P
echo $d
