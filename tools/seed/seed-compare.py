#!/venv/bin/python
"""usage: seed-compare.py <junit.xml>  -> prints tests that passed at baseline but do not pass in this run"""
import sys, xml.etree.ElementTree as ET
base=set(open('/tmp/seed-baseline-passing.txt').read().split('\n'))-{''}
ok=set()
for tc in ET.parse(sys.argv[1]).iter('testcase'):
    if not any(c.tag in('failure','error','skipped') for c in tc): ok.add(f"{tc.get('classname')}::{tc.get('name')}")
lost=sorted(base-ok)
print(f'{len(base)} baseline-passing, {len(lost)} of them not passing now'); print('\n'.join(lost))
sys.exit(1 if lost else 0)
