#!/usr/bin/env python3
"""Run the registered quick check of the attacked property against every seeded change:
apply seeded/<id>/patch.diff to /repo, run the check, undo. Writes seeded/<id>/result.json.
usage: tools/seeded_run.py [--worktree] [id ...]   (never leaves /repo modified)
--worktree: apply the change in a scratch git worktree of /repo HEAD and point the check at it with FORML_REPO (used while
other work is going on against /repo); default: apply to /repo itself and undo."""
import json
import os
import subprocess
import sys
import time

ROOT = os.path.abspath(os.path.join(os.path.dirname(__file__), '..'))
REPO = '/repo'


def sh(cmd, **kw):
    return subprocess.run(cmd, shell=True, capture_output=True, text=True, **kw)


def main():
    worktree = '--worktree' in sys.argv
    args = [a for a in sys.argv[1:] if not a.startswith('--')]
    ids = args or sorted(d for d in os.listdir(os.path.join(ROOT, 'seeded')) if os.path.isdir(os.path.join(ROOT, 'seeded', d)))
    if not worktree and sh(f'git -C {REPO} status --porcelain --untracked-files=no').stdout.strip():
        print('refusing: /repo has local modifications')
        return 2
    summary = []
    for sid in ids:
        d = os.path.join(ROOT, 'seeded', sid)
        meta = json.load(open(os.path.join(d, 'meta.json')))
        pid = meta['property']
        target = REPO
        if worktree:
            target = f'/tmp/seedrun-{sid}'
            sh(f'git -C {REPO} worktree remove --force {target}')
            sh(f'git -C {REPO} worktree add -q --detach {target} HEAD')
        r = sh(f'git -C {target} apply {d}/patch.diff')
        if r.returncode:
            if worktree:
                sh(f'git -C {REPO} worktree remove --force {target}')
            summary.append((sid, pid, 'patch does not apply: ' + r.stderr.strip()[:100]))
            continue
        t0 = time.time()
        try:
            r = sh(f'/venv/bin/python harness/check.py {pid} --tier quick', cwd=ROOT, timeout=1800,
                   env=dict(os.environ, FORML_REPO=target))
            lines = [ln for ln in r.stdout.split('\n') if ln.startswith(('VIOLATION', 'OK ', 'KNOWN-FINDING'))]
            rc = r.returncode
        except subprocess.TimeoutExpired:
            lines, rc = ['timeout'], 2
        finally:
            if worktree:
                sh(f'git -C {REPO} worktree remove --force {target}')
            else:
                sh(f'git -C {REPO} checkout -- .')
        viol = [ln for ln in lines if ln.startswith('VIOLATION')]
        res = {'property': pid, 'exit': rc, 'caught': rc == 1 and bool(viol),
               'with_failing_input': any('no-failing-input-found' not in ln for ln in viol),
               'violation_lines': [ln[:300] for ln in viol], 'wall_s': round(time.time() - t0, 1),
               'mode': 'worktree+FORML_REPO' if worktree else 'applied to /repo', 'verif_commit': sh('git rev-parse --short HEAD', cwd=ROOT).stdout.strip()}
        json.dump(res, open(os.path.join(d, 'result.json'), 'w'), indent=1)
        summary.append((sid, pid, 'CAUGHT' if res['caught'] else f'MISSED (exit {rc})',
                        'input' if res['with_failing_input'] else 'no-input'))
    for s in summary:
        print(*s)
    return 0


if __name__ == '__main__':
    sys.exit(main())
