#!/bin/bash
# usage: tools/run_all.sh [tier] [parallel] [ids...] — run the registered checks on /repo (or $FORML_REPO), print one line per check
tier=${1:-quick}; par=${2:-5}; shift 2 2>/dev/null
ids=${@:-C01 C02 C03 C04 C05 C06 C07 C08 C09 C10 C11 C12 C13 C14 C15 C16 C17 C18 C19 C20}
cd "$(dirname "$0")/.."
out=${RUNALL_OUT:-/tmp/runall}; mkdir -p $out
printf '%s\n' $ids | xargs -P $par -I{} bash -c "s=\$(date +%s); /venv/bin/python harness/check.py {} --tier $tier > $out/{}.$tier.log 2>&1; rc=\$?; echo {} exit=\$rc \$((\$(date +%s)-s))s \$(grep -E '^(OK|VIOLATION)' $out/{}.$tier.log | head -2 | cut -c1-150) known=\$(grep -c '^KNOWN-FINDING' $out/{}.$tier.log)"
