#!/bin/bash
# usage: tools/seed_prepare.sh Cxx tag  -> /tmp/seed-cxx-tag/{repo (git worktree of /repo HEAD), PROPERTY.json}
set -e
pid=$1; tag=$2; d=/tmp/seed-$(echo $pid | tr A-Z a-z)-$tag
mkdir -p $d
git -C /repo worktree add -q --detach $d/repo HEAD
python3 - "$pid" "$d" <<'P'
import json, sys
pid, d = sys.argv[1:3]
for line in open('/verif/properties.jsonl'):
    r = json.loads(line)
    if r['id'] == pid:
        json.dump(r, open(f'{d}/PROPERTY.json', 'w'), indent=1)
P
echo $d
