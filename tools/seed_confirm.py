#!/usr/bin/env python3
"""Confirm a seeded change independently and keep it under /verif/seeded/<id>/.

usage: tools/seed_confirm.py <source dir with patch.diff demo.py meta.json> <id> [--no-suite]

In a scratch worktree of /repo HEAD (outside /repo and /verif, removed afterwards):
  1. demo on the clean tree must exit 0,
  2. the patch must apply; forml must import,
  3. demo on the changed tree must exit non-zero,
  4. the full pinned test-suite on the changed tree: every baseline-passing test still passes.
Writes seeded/<id>/{patch.diff,demo.py,meta.json}; meta.json gets a "confirmed" block. Exit 0 = kept.
"""
import json
import os
import shutil
import subprocess
import sys
import tempfile
import time
import xml.etree.ElementTree as ET

ROOT = os.path.abspath(os.path.join(os.path.dirname(__file__), '..'))
PY = '/venv/bin/python'


def sh(cmd, **kw):
    return subprocess.run(cmd, shell=True, capture_output=True, text=True, **kw)


def main():
    src, sid = sys.argv[1], sys.argv[2]
    suite = '--no-suite' not in sys.argv
    meta = json.load(open(os.path.join(src, 'meta.json')))
    wt = tempfile.mkdtemp(prefix=f'seedwt-{sid}-', dir='/tmp')
    os.rmdir(wt)
    conf = {'when': time.strftime('%Y-%m-%dT%H:%M:%S'), 'repo_head': sh('git -C /repo rev-parse --short HEAD').stdout.strip()}
    ok = False
    try:
        r = sh(f'git -C /repo worktree add -q --detach {wt} HEAD')
        assert r.returncode == 0, r.stderr
        env = dict(os.environ, FORML_REPO=wt, PYTHONPATH=wt, PYTHONWARNINGS='ignore')
        demo = os.path.join(src, 'demo.py')
        home = tempfile.mkdtemp(prefix='seedhome-')
        env['FORML_HOME'] = home
        r = sh(f'{PY} {demo}', env=env, timeout=600, cwd=home)
        conf['demo_clean'] = {'exit': r.returncode, 'tail': (r.stdout + r.stderr)[-300:]}
        r = sh(f'git -C {wt} apply {os.path.abspath(src)}/patch.diff')
        conf['applies'] = r.returncode == 0
        assert r.returncode == 0, r.stderr
        r = sh(f'{PY} -c "import forml, forml.flow, forml.io, forml.runtime"', env=env, cwd=home)
        conf['imports'] = r.returncode == 0
        r = sh(f'{PY} {demo}', env=env, timeout=600, cwd=home)
        conf['demo_changed'] = {'exit': r.returncode, 'tail': (r.stdout + r.stderr)[-400:]}
        shutil.rmtree(home, ignore_errors=True)
        if suite:
            junit = wt + '.junit.xml'
            t0 = time.time()
            sh(f'cd {wt} && {PY} -m pytest -q -p no:cacheprovider --timeout=900 --continue-on-collection-errors --junitxml={junit}',
               env=dict(os.environ, PYTHONPATH=wt), timeout=3600)
            base = set(open(os.path.join(ROOT, 'tools', 'seed', 'seed-baseline-passing.txt')).read().split('\n')) - {''}
            passed = set()
            for tc in ET.parse(junit).iter('testcase'):
                if not any(c.tag in ('failure', 'error', 'skipped') for c in tc):
                    passed.add(f"{tc.get('classname')}::{tc.get('name')}")
            lost = sorted(base - passed)
            conf['suite'] = {'baseline_passing': len(base), 'lost': lost[:20], 'passed_now': len(passed), 'wall_s': round(time.time() - t0)}
            os.remove(junit)
        ok = (conf['demo_clean']['exit'] == 0 and conf['demo_changed']['exit'] != 0 and conf['imports']
              and (not suite or not conf['suite']['lost']))
    except Exception as e:  # pylint: disable=broad-except
        conf['error'] = repr(e)[:500]
    finally:
        sh(f'git -C /repo worktree remove --force {wt}')
        shutil.rmtree(wt, ignore_errors=True)
    conf['kept'] = ok
    if ok:
        dst = os.path.join(ROOT, 'seeded', sid)
        os.makedirs(dst, exist_ok=True)
        shutil.copy(os.path.join(src, 'patch.diff'), dst)
        shutil.copy(os.path.join(src, 'demo.py'), dst)
        meta['confirmed'] = conf
        meta['origin'] = 'independent sub-agent given only the property record and a scratch worktree'
        meta.setdefault('property', sid.split('-')[0])
        json.dump(meta, open(os.path.join(dst, 'meta.json'), 'w'), indent=1)
    print(sid, 'KEPT' if ok else 'REJECTED', json.dumps(conf)[:600])
    return 0 if ok else 1


if __name__ == '__main__':
    sys.exit(main())
