#!/bin/bash
# usage: source tools/private_lean.sh <name>   -> creates /tmp/lean-<name> (symlinked sources, private .lake) and
# exports VERIF_LEAN_DIR so that harness/check.py and manual `lake build` (run inside that directory) do not contend
# with other builds. Sources stay in /verif/lean (single source of truth).
d=/tmp/lean-$1
if [ ! -d "$d" ]; then
  mkdir -p "$d"
  ln -s /verif/lean/ForML "$d/ForML"; ln -s /verif/lean/Driver "$d/Driver"
  ln -s /verif/lean/lakefile.toml "$d/lakefile.toml"; cp /verif/lean/lake-manifest.json "$d/" 2>/dev/null
  cp -a /verif/lean/.lake "$d/.lake"
fi
export VERIF_LEAN_DIR=$d
echo "VERIF_LEAN_DIR=$d"
